package ike

import (
	vr "github.com/free5gc/ike/internal/verifrt"
	"github.com/free5gc/ike/message"
)

// HUnprotectOwnsData (C20): after DecodeDecrypt(b), overwriting the receive buffer leaves the decoded
// payloads unchanged.  Params: suite, sender role, hdrMode, tier, payload kinds..., 0.
func HUnprotectOwnsData() {
	suite, role, hdrMode, tier := vr.Param(0), vr.Param(1), vr.Param(2), vr.Param(3)
	km := VGenKeyMaterial(suite)
	kS, kR := VNewKey(km), VNewKey(km)
	m := message.VGenMessage(4, tier)
	orig := message.VClonePayloads(m.Payloads)
	enc, err := EncodeEncrypt(m, kS, vRole(role))
	vr.Assert("c20.protect.noerr", err == nil)
	if err != nil {
		return
	}
	buf := make([]byte, len(enc), len(enc)+8)
	copy(buf, enc)
	var h *message.IKEHeader
	if hdrMode == 1 {
		h, err = message.ParseHeader(buf)
		if err != nil {
			return
		}
	}
	r, err := DecodeDecrypt(buf, h, kR, vRole(1-role))
	vr.Assert("c20.unprotect.noerr", err == nil)
	if err != nil {
		return
	}
	vr.Havoc(buf)
	vr.Assert("c20.unprotect.noalias", message.VEqPayloads(orig, r.Payloads))
}

// HProtectFrame (C20): EncodeEncrypt with a key alters nothing but the message's payload list
// (replaced by one Encrypted payload) and header bookkeeping; the original payload objects are
// untouched, and the returned buffer is not referenced by the message's original payloads.
// Params: suite, role, tier, payload kinds..., 0.
func HProtectFrame() {
	suite, role, tier := vr.Param(0), vr.Param(1), vr.Param(2)
	k := VNewKey(VGenKeyMaterial(suite))
	m := message.VGenMessage(3, tier)
	objs := append(message.IKEPayloadContainer{}, m.Payloads...)
	callers := m.Payloads // the slice the caller handed to the message (same backing array)
	snap := message.VClonePayloads(m.Payloads)
	hdr := *m.IKEHeader
	tok := vr.FrameBegin(objs)
	b, err := EncodeEncrypt(m, k, vRole(role))
	vr.Assert("c20.protect.noerr", err == nil)
	if err != nil {
		return
	}
	vr.Assert("c20.protect-writes-no-payload-state", vr.FrameUnchanged(tok))
	vr.Assert("c20.protect-frame.header", message.VEqHeader(&hdr, m.IKEHeader))
	vr.Assert("c20.protect-frame.list", len(m.Payloads) == 1 && m.Payloads[0].Type() == message.TypeSK)
	vr.Assert("c20.protect-frame.payloads", message.VEqPayloadsExact(snap, objs))
	// the container the caller still holds lists the same payload objects as before
	same := len(callers) == len(objs)
	for i := range objs {
		if i < len(callers) {
			same = vr.All(same, callers[i] == objs[i])
		}
	}
	vr.Assert("c20.protect-frame.callers-container", same)
	vr.Havoc(b)
	vr.Assert("c20.protect-frame.payloads-after-havoc", message.VEqPayloadsExact(snap, objs))
}
