package encr

import (
	vr "github.com/free5gc/ike/internal/verifrt"
)

var vKeyLens = []int{16, 24, 32}

// vSpecDecrypt is textbook AES-CBC decryption over the reference block primitive.
func vSpecDecrypt(key, iv, ct []byte) []byte {
	var out []byte
	prev := iv
	for i := 0; i+16 <= len(ct); i += 16 {
		blk := ct[i : i+16]
		d := vr.AESDec(key, blk)
		for j := 0; j < 16; j++ {
			out = append(out, d[j]^prev[j])
		}
		prev = blk
	}
	return out
}

// HEncryptStructure (C10): size law, CBC structure, IV drawn in this call, inverse.
// Params: key size index, plaintext length n.
func HEncryptStructure() {
	ki, n := vr.Param(0), vr.Param(1)
	key := vr.Bytes(vKeyLens[ki])
	c, err := StrToType(vNames[ki]).NewCrypto(key)
	vr.Assert("c10.newcrypto.noerr", err == nil)
	if err != nil {
		return
	}
	pt := vr.Bytes(n)
	keep := append([]byte{}, pt...)
	reads0 := len(vr.RandLog())
	tok := vr.FrameBegin(c)
	ct, err := c.Encrypt(pt)
	vr.Assert("c10.encrypt.noerr", err == nil)
	if err != nil {
		return
	}
	// the cipher object holds no per-message state: Encrypt writes nothing reachable from it
	vr.Assert("c10.stateless.encrypt", vr.FrameUnchanged(tok))
	ctKeep := append([]byte{}, ct...)
	k := n/16 + 1
	vr.Assert("c10.size", len(ct) == 16+16*k)
	if len(ct) != 16+16*k {
		return
	}
	// structure: IV || CBC(plaintext || pad || pad length)
	p := vSpecDecrypt(key, ct[:16], ct[16:])
	vr.Assert("c10.cbc.plaintext", vr.EqBytes(p[:n], keep))
	vr.Assert("c10.cbc.padlen", int(p[len(p)-1]) == 16*k-n-1)
	// the IV is one of the 16-octet strings the random source delivered during this call
	log := vr.RandLog()
	fresh := false
	for _, r := range log[reads0:] {
		if len(r) == 16 {
			fresh = vr.Any(fresh, vr.EqBytes(r, ct[:16]))
		}
	}
	vr.Assert("c10.iv-fresh", fresh)
	// inverse
	back, err := c.Decrypt(ct)
	vr.Assert("c10.inverse.noerr", err == nil)
	if err == nil {
		vr.Assert("c10.inverse", vr.EqBytes(back, keep))
	}
	// the cipher object keeps no per-message state (representation invariant, see C17)
	cc := c.(*EncrAesCbcCrypto)
	vr.Assert("c10.stateless", cc.Iv == nil && cc.Padding == nil)
	// a second encryption on the same object draws a new IV (a different read of the source)
	reads1 := len(vr.RandLog())
	ct2, err := c.Encrypt(keep)
	vr.Assert("c10.encrypt2.noerr", err == nil)
	if err != nil {
		return
	}
	log = vr.RandLog()
	fresh2 := false
	for _, r := range log[reads1:] {
		if len(r) == 16 {
			fresh2 = vr.Any(fresh2, vr.EqBytes(r, ct2[:16]))
		}
	}
	vr.Assert("c10.iv-fresh-2", fresh2)
	// the first ciphertext is still what it was and still decrypts to the plaintext
	vr.Assert("c10.first-ciphertext-intact", vr.EqBytes(ct, ctKeep))
	back1, err := c.Decrypt(ct)
	vr.Assert("c10.first-ciphertext-decrypts", err == nil && vr.EqBytes(back1, keep))
	vr.Assert("c10.stateless.all", vr.FrameUnchanged(tok))
	p2 := vSpecDecrypt(key, ct2[:16], ct2[16:])
	vr.Assert("c10.cbc.plaintext-2", len(p2) >= n && vr.EqBytes(p2[:n], keep))
}

// HRandFault (C10): a failing random source at read Param(2) gives an error and no ciphertext.
func HRandFault() {
	ki, n, k := vr.Param(0), vr.Param(1), vr.Param(2)
	c, err := StrToType(vNames[ki]).NewCrypto(vr.Bytes(vKeyLens[ki]))
	if err != nil {
		return
	}
	pt := vr.Bytes(n)
	vr.FaultAt(k)
	ct, err := c.Encrypt(pt)
	if vr.RandReads() >= k {
		vr.Assert("c10.fault.error", err != nil)
		vr.Assert("c10.fault.no-ciphertext", ct == nil)
	} else {
		vr.Assert("c10.nofault.noerr", err == nil)
	}
}

// HWrongKey (C10): keys of any other size are refused.  Params: key size index, offered length.
func HWrongKey() {
	ki, l := vr.Param(0), vr.Param(1)
	c, err := StrToType(vNames[ki]).NewCrypto(vr.Bytes(l))
	if l == vKeyLens[ki] {
		vr.Assert("c10.rightkey.accepted", err == nil && c != nil)
	} else {
		vr.Assert("c10.wrongkey.refused", err != nil)
	}
}

// HKeyIsolation (C10): two cipher objects built one after the other from keys that share their first 16
// octets each work with their own key.  Params: key index of the first, of the second.
func HKeyIsolation() {
	i, j := vr.Param(0), vr.Param(1)
	prefix := vr.Bytes(16)
	k1 := append(append([]byte{}, prefix...), vr.Bytes(vKeyLens[i]-16)...)
	k2 := append(append([]byte{}, prefix...), vr.Bytes(vKeyLens[j]-16)...)
	c1, err1 := StrToType(vNames[i]).NewCrypto(append([]byte{}, k1...))
	c2, err2 := StrToType(vNames[j]).NewCrypto(append([]byte{}, k2...))
	vr.Assert("c10.isolation.noerr", err1 == nil && err2 == nil)
	if err1 != nil || err2 != nil {
		return
	}
	p := vr.Bytes(5)
	for n, c := range []interface{ Encrypt([]byte) ([]byte, error) }{c1, c2} {
		ct, err := c.Encrypt(append([]byte{}, p...))
		vr.Assert("c10.isolation.encrypt.noerr", err == nil && len(ct) == 32)
		if err != nil || len(ct) != 32 {
			return
		}
		key := k1
		if n == 1 {
			key = k2
		}
		vr.Assert("c10.isolation.own-key", vr.EqBytes(vr.AESDec(key, ct[16:32])[:5], vXor(p, ct[:5])))
	}
}

func vXor(a, b []byte) []byte {
	out := make([]byte, len(a))
	for i := range a {
		out[i] = a[i] ^ b[i]
	}
	return out
}
