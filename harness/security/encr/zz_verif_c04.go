package encr

import (
	vr "github.com/free5gc/ike/internal/verifrt"
)

var vNames = []string{ENCR_AES_CBC_128, ENCR_AES_CBC_192, ENCR_AES_CBC_256}

// HDecryptArbitrary (C04 / C10): Decrypt on an arbitrary ciphertext of length Param(1) under an
// arbitrary key of the size selected by Param(0).
func HDecryptArbitrary() {
	t := StrToType(vNames[vr.Param(0)])
	key := vr.Bytes(t.GetKeyLength())
	c, err := t.NewCrypto(key)
	vr.Assert("c10.newcrypto.noerr", err == nil)
	if err != nil {
		return
	}
	ct := vr.Input(vr.Param(1))
	n := len(ct)
	if vr.Native() {
		// replay: the counterexample fixes what the (uninterpreted) block decryption returns; build the
		// ciphertext that really decrypts to those octets under this key and IV
		if p := vr.ModelPlaintext(0); p != nil && n >= 32 && len(p) == n-16 {
			ct = append(append([]byte{}, ct[:16]...), vSpecEncrypt(key, ct[:16], p)...)
		}
	}
	before := append([]byte{}, ct...)
	pt, err := c.Decrypt(ct)
	// Decrypt does not write into the ciphertext it is given (read-only sharing between decoders, C18)
	vr.Assert("c04.input-unchanged", vr.EqBytes(ct, before))
	if err != nil {
		vr.Cover("c10.decrypt.rejected")
		return
	}
	vr.Cover("c10.decrypt.accepted")
	// an accepted ciphertext has an IV, at least one block, whole blocks, and a possible pad length
	vr.Assert("c10.decrypt.accept-shape", n >= 32 && n%16 == 0)
	vr.Assert("c10.decrypt.accept-len", len(pt) <= n-16-1 && len(pt) >= n-16-256)
}

func vSpecEncrypt(key, iv, pt []byte) []byte {
	var out []byte
	prev := iv
	for i := 0; i+16 <= len(pt); i += 16 {
		x := make([]byte, 16)
		for j := 0; j < 16; j++ {
			x[j] = pt[i+j] ^ prev[j]
		}
		c := vr.AESEnc(key, x)
		out = append(out, c...)
		prev = c
	}
	return out
}
