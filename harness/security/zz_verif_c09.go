package security

import (
	"math/big"

	vr "github.com/free5gc/ike/internal/verifrt"
	"github.com/free5gc/ike/message"
	"github.com/free5gc/ike/security/dh"
	"github.com/free5gc/ike/security/encr"
	"github.com/free5gc/ike/security/integ"
	"github.com/free5gc/ike/security/prf"
)

// HRandomNumber (C09): a locally generated exponent is a value the system random source delivered in
// this call, lies strictly between 2^128-1 and 2^2048-1, a second call returns a later draw, and a
// failing random source (at read Param(0); 0 = none) gives an error instead of a number.
func HRandomNumber() {
	k := vr.Param(0)
	once := k == 4 // one call only, with the rejection loop followed further (job option unwind_assume_n)
	if once {
		k = 0
	}
	vr.FaultAt(k)
	n0 := len(vr.RandAllLog())
	x, err := GenerateRandomNumber()
	if k > 0 && vr.RandReads() >= k {
		// the injected failure happened during this call (possibly after rejected draws)
		vr.Assert("c09.fault", err != nil && x == nil)
		return
	}
	vr.Assert("c09.rand.noerr", err == nil && x != nil)
	if err != nil || x == nil {
		return
	}
	lo, _ := new(big.Int).SetString("100000000000000000000000000000000", 16)       // 2^128
	hi, _ := new(big.Int).SetString("1"+vZeros512, 16) // 2^2048
	vr.Assert("c09.range", x.Cmp(lo) >= 0 && x.Cmp(hi) < 0)
	log := vr.RandAllLog()
	vr.Assert("c09.from-source", vFromSource(x, log[n0:]))
	n1 := len(log)
	if once {
		return
	}
	y, err := GenerateRandomNumber()
	if k > 0 && vr.RandReads() >= k {
		vr.Assert("c09.fault", err != nil && y == nil)
		return
	}
	vr.Assert("c09.rand2.noerr", err == nil && y != nil)
	if err == nil && y != nil {
		log = vr.RandAllLog()
		vr.Assert("c09.second-is-a-new-draw", vFromSource(y, log[n1:]))
	}
}

// vFromSource: the exponent is made of the last 2048 bits the random source delivered during the call
// (whatever the number of reads, rejected draws included).
func vFromSource(x *big.Int, deliveries [][]byte) bool {
	var all []byte
	for _, d := range deliveries {
		all = append(all, d...)
	}
	if len(all) < 256 {
		return false
	}
	return x.Cmp(new(big.Int).SetBytes(all[len(all)-256:])) == 0
}

// HNewIKESAKeyFault (C09): NewIKESAKey propagates a failure of the random source: error, no key.
func HNewIKESAKeyFault() {
	p := &message.Proposal{ProposalNumber: 1, ProtocolID: message.TypeIKE}
	et, _ := encr.ToTransform(encr.StrToType(vEncrNames[0]))
	p.EncryptionAlgorithm = append(p.EncryptionAlgorithm, et)
	p.IntegrityAlgorithm = append(p.IntegrityAlgorithm, integ.ToTransform(integ.StrToType(vIntegNames[0])))
	p.PseudorandomFunction = append(p.PseudorandomFunction, prf.ToTransform(prf.StrToType(vPrfNames[0])))
	p.DiffieHellmanGroup = append(p.DiffieHellmanGroup, dh.ToTransform(dh.StrToType(vDhNames[vr.Param(0)])))
	vr.FaultAt(1)
	k, pub, err := NewIKESAKey(p, vr.Bytes(vDhLen[vr.Param(0)]), vr.Bytes(8), vr.U64(), vr.U64())
	vr.Assert("c09.fault.newikesakey", err != nil && k == nil && pub == nil)
}

const vZeros128 = "00000000000000000000000000000000000000000000000000000000000000000000000000000000000000000000000000000000000000000000000000000000"
const vZeros512 = vZeros128 + vZeros128 + vZeros128 + vZeros128
