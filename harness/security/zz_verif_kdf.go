package security

import (
	"math/big"

	vr "github.com/free5gc/ike/internal/verifrt"
	"github.com/free5gc/ike/message"
	"github.com/free5gc/ike/security/dh"
	"github.com/free5gc/ike/security/encr"
	"github.com/free5gc/ike/security/integ"
	"github.com/free5gc/ike/security/prf"
)

// Independent tables (RFC 2104/2403/2404/4868/3602, IANA registry) - not read from the code under test.
var (
	vPrfNames   = []string{prf.PRF_HMAC_MD5, prf.PRF_HMAC_SHA1, prf.PRF_HMAC_SHA2_256}
	vPrfHash    = []string{"md5", "sha1", "sha256"}
	vPrfLen     = []int{16, 20, 32} // key length = output length
	vIntegNames = []string{integ.AUTH_HMAC_MD5_96, integ.AUTH_HMAC_SHA1_96, integ.AUTH_HMAC_SHA2_256_128}
	vIntegHash  = []string{"md5", "sha1", "sha256"}
	vIntegKey   = []int{16, 20, 32}
	vIntegOut   = []int{12, 12, 16}
	vEncrNames  = []string{encr.ENCR_AES_CBC_128, encr.ENCR_AES_CBC_192, encr.ENCR_AES_CBC_256}
	vEncrKey    = []int{16, 24, 32}
)

// vPrfPlus is prf+ of RFC 7296 2.13 written from the RFC: T1 = prf(K, S | 0x01),
// Tn = prf(K, Tn-1 | S | n), output = T1 | T2 | ... truncated to n octets.
func vPrfPlus(hash string, key, seed []byte, n int) []byte {
	var out, prev []byte
	for i := 1; len(out) < n; i++ {
		msg := append(append(append([]byte{}, prev...), seed...), byte(i))
		prev = vr.HMAC(hash, key, msg)
		out = append(out, prev...)
	}
	return out[:n]
}

func vSpecCBCDecrypt(key, iv, ct []byte) []byte {
	var out []byte
	prev := iv
	for i := 0; i+16 <= len(ct); i += 16 {
		blk := ct[i : i+16]
		d := vr.AESDec(key, blk)
		for j := 0; j < 16; j++ {
			out = append(out, d[j]^prev[j])
		}
		prev = blk
	}
	return out
}

func vU64Bytes(v uint64) []byte {
	return []byte{byte(v >> 56), byte(v >> 48), byte(v >> 40), byte(v >> 32), byte(v >> 24), byte(v >> 16), byte(v >> 8), byte(v)}
}

// vGuarded copies b into a buffer with 24 further octets (0xA5) behind it; vGuardIntact checks both parts.
func vGuarded(b []byte) []byte {
	g := make([]byte, len(b)+24)
	copy(g, b)
	for i := len(b); i < len(g); i++ {
		g[i] = 0xA5
	}
	return g
}

func vGuardIntact(g, b []byte) bool {
	ok := vr.EqBytes(g[:len(b)], b)
	for i := len(b); i < len(g); i++ {
		ok = vr.All(ok, g[i] == 0xA5)
	}
	return ok
}

// HIKESAKeys (C07): GenerateKeyForIKESA against the independent prf / prf+ and length tables, and the
// ready-made objects are keyed with exactly those keys.
// Params: encr idx, integ idx, prf idx, nonce length, shared-secret length.
func HIKESAKeys() {
	ei, ii, pi, ln, ls := vr.Param(0), vr.Param(1), vr.Param(2), vr.Param(3), vr.Param(4)
	vDeriveAndCheck(vNewIKESAKeyObject(ei, ii, pi), ei, ii, pi, ln, ls)
}

// HIKESAKeysRepeated (C07): the same on an object that has already been through a derivation (a
// restarted exchange, a retry with other nonces): the second derivation gives exactly the keys of its
// own inputs.  Params as HIKESAKeys, then the nonce and secret lengths of the first derivation.
func HIKESAKeysRepeated() {
	ei, ii, pi, ln, ls := vr.Param(0), vr.Param(1), vr.Param(2), vr.Param(3), vr.Param(4)
	k := vNewIKESAKeyObject(ei, ii, pi)
	err := k.GenerateKeyForIKESA(vr.Bytes(vr.Param(5)), vr.Bytes(vr.Param(6)), vr.U64(), vr.U64())
	vr.Assert("c07.first.noerr", err == nil)
	vDeriveAndCheck(k, ei, ii, pi, ln, ls)
}

func vNewIKESAKeyObject(ei, ii, pi int) *IKESAKey {
	return &IKESAKey{
		DhInfo:    dh.StrToType(dh.DH_2048_BIT_MODP),
		EncrInfo:  encr.StrToType(vEncrNames[ei]),
		IntegInfo: integ.StrToType(vIntegNames[ii]),
		PrfInfo:   prf.StrToType(vPrfNames[pi]),
	}
}

func vDeriveAndCheck(k *IKESAKey, ei, ii, pi, ln, ls int) {
	nonce, secret := vr.Bytes(ln), vr.Bytes(ls)
	spiI, spiR := vr.U64(), vr.U64()
	// the arguments are views of larger buffers the caller goes on using (a receive buffer): nothing
	// behind or inside them is written
	nbuf, sbuf := vGuarded(nonce), vGuarded(secret)
	err := k.GenerateKeyForIKESA(nbuf[:ln], sbuf[:ls], spiI, spiR)
	vr.Assert("c07.arguments-untouched", vr.All(vGuardIntact(nbuf, nonce), vGuardIntact(sbuf, secret)))
	vr.Assert("c07.noerr", err == nil)
	if err != nil {
		return
	}
	h := vPrfHash[pi]
	skeyseed := vr.HMAC(h, nonce, secret)
	seed := append(append(append([]byte{}, nonce...), vU64Bytes(spiI)...), vU64Bytes(spiR)...)
	lp, la, le := vPrfLen[pi], vIntegKey[ii], vEncrKey[ei]
	ks := vPrfPlus(h, skeyseed, seed, 3*lp+2*la+2*le)
	o := 0
	next := func(n int) []byte { r := ks[o : o+n]; o += n; return r }
	skd, skai, skar, skei, sker, skpi, skpr := next(lp), next(la), next(la), next(le), next(le), next(lp), next(lp)
	vr.Assert("c07.sk_d", vr.EqBytes(k.SK_d, skd))
	vr.Assert("c07.sk_ai", vr.EqBytes(k.SK_ai, skai))
	vr.Assert("c07.sk_ar", vr.EqBytes(k.SK_ar, skar))
	vr.Assert("c07.sk_ei", vr.EqBytes(k.SK_ei, skei))
	vr.Assert("c07.sk_er", vr.EqBytes(k.SK_er, sker))
	vr.Assert("c07.sk_pi", vr.EqBytes(k.SK_pi, skpi))
	vr.Assert("c07.sk_pr", vr.EqBytes(k.SK_pr, skpr))
	// the ready-to-use objects
	vr.Assert("c07.obj.nonnil", k.Prf_d != nil && k.Integ_i != nil && k.Integ_r != nil && k.Prf_i != nil && k.Prf_r != nil && k.Encr_i != nil && k.Encr_r != nil)
	if k.Prf_d == nil || k.Integ_i == nil || k.Integ_r == nil || k.Prf_i == nil || k.Prf_r == nil || k.Encr_i == nil || k.Encr_r == nil {
		return
	}
	p := vr.Bytes(5)
	mac := func(hh interface {
		Reset()
		Write([]byte) (int, error)
		Sum([]byte) []byte
	}) []byte {
		hh.Reset()
		hh.Write(p)
		return hh.Sum(nil)
	}
	vr.Assert("c07.obj.prf_d", vr.EqBytes(mac(k.Prf_d), vr.HMAC(h, skd, p)))
	vr.Assert("c07.obj.prf_i", vr.EqBytes(mac(k.Prf_i), vr.HMAC(h, skpi, p)))
	vr.Assert("c07.obj.prf_r", vr.EqBytes(mac(k.Prf_r), vr.HMAC(h, skpr, p)))
	vr.Assert("c07.obj.integ_i", vr.EqBytes(mac(k.Integ_i), vr.HMAC(vIntegHash[ii], skai, p)))
	vr.Assert("c07.obj.integ_r", vr.EqBytes(mac(k.Integ_r), vr.HMAC(vIntegHash[ii], skar, p)))
	vr.Assert("c07.obj.integ_outlen", k.IntegInfo.GetOutputLength() == vIntegOut[ii])
	cti, err1 := k.Encr_i.Encrypt(append([]byte{}, p...))
	ctr, err2 := k.Encr_r.Encrypt(append([]byte{}, p...))
	vr.Assert("c07.obj.encr.noerr", err1 == nil && err2 == nil)
	if err1 == nil && err2 == nil && len(cti) == 32 && len(ctr) == 32 {
		vr.Assert("c07.obj.encr_i", vr.EqBytes(vSpecCBCDecrypt(skei, cti[:16], cti[16:])[:5], p))
		vr.Assert("c07.obj.encr_r", vr.EqBytes(vSpecCBCDecrypt(sker, ctr[:16], ctr[16:])[:5], p))
	}
}

// HIKESAKeysRefuse (C07): empty nonce or shared secret is refused.
func HIKESAKeysRefuse() {
	k := &IKESAKey{DhInfo: dh.StrToType(dh.DH_1024_BIT_MODP), EncrInfo: encr.StrToType(vEncrNames[0]),
		IntegInfo: integ.StrToType(vIntegNames[0]), PrfInfo: prf.StrToType(vPrfNames[0])}
	vr.Assert("c07.refuse.nonce", k.GenerateKeyForIKESA(nil, vr.Bytes(3), 1, 2) != nil)
	vr.Assert("c07.refuse.secret", k.GenerateKeyForIKESA(vr.Bytes(3), nil, 1, 2) != nil)
}

// HChildKeys (C08): GenerateKeyForChildSA against the independent prf+(SK_d, Ni|Nr) and slice order;
// the IKE SA's Prf_d object starts with Param(4) octets of junk already written (whatever an earlier
// use left behind), and a second derivation on the same object gives the same keys again.
// Params: prf idx, encr idx, integ idx (3 = none), nonce length, junk length (+1000: the Child SA key
// object is built by NewChildSAKeyByProposal from its own proposal instead of a struct literal; +2000: the
// IKE SA object carries SK_d only inside Prf_d).
func HChildKeys() {
	pi, ei, ii, ln, junk := vr.Param(0), vr.Param(1), vr.Param(2), vr.Param(3), vr.Param(4)
	skd := vr.Bytes(vPrfLen[pi])
	ike := &IKESAKey{PrfInfo: prf.StrToType(vPrfNames[pi]), SK_d: skd}
	ike.Prf_d = ike.PrfInfo.Init(skd)
	if junk >= 3000 {
		// an IKE SA object with all its descriptors set, as the IKE SA constructors leave it (what the Child
		// SA gets depends on its own transforms only)
		ike.DhInfo = dh.StrToType(dh.DH_2048_BIT_MODP)
		ike.EncrInfo = encr.StrToType(vEncrNames[(ei+1)%3])
		ike.IntegInfo = integ.StrToType(vIntegNames[(ii+1)%3])
	} else if junk >= 2000 {
		// an SA object that holds the derivation key only inside its PRF object (raw key wiped / never
		// stored, as in the repository's own test): the ready-made object is what derivations use
		ike.SK_d = nil
	}
	if junk%1000 > 0 {
		ike.Prf_d.Write(vr.Bytes(junk % 1000))
	}
	nonce := vr.Bytes(ln)
	viaProposal := junk >= 1000 && junk < 2000 // the Child SA key object comes from the negotiated-proposal constructor
	mk := func() *ChildSAKey {
		c := &ChildSAKey{EncrKInfo: encr.StrToKType(vEncrNames[ei])}
		if ii < 3 {
			c.IntegKInfo = integ.StrToKType(vIntegNames[ii])
		}
		if viaProposal && ii < 3 {
			p, err := c.ToProposal()
			vr.Assert("c08.proposal.noerr", err == nil)
			back, err := NewChildSAKeyByProposal(p)
			vr.Assert("c08.proposal.back.noerr", err == nil && back != nil)
			if err == nil && back != nil {
				return back
			}
		}
		return c
	}
	le, la := vEncrKey[ei], 0
	if ii < 3 {
		la = vIntegKey[ii]
	}
	ks := vPrfPlus(vPrfHash[pi], skd, nonce, 2*(le+la))
	check := func(c *ChildSAKey, tag string) {
		vr.Assert("c08.slice.ei2r"+tag, vr.EqBytes(c.InitiatorToResponderEncryptionKey, ks[0:le]))
		vr.Assert("c08.slice.ai2r"+tag, vr.EqBytes(c.InitiatorToResponderIntegrityKey, ks[le:le+la]))
		vr.Assert("c08.slice.er2i"+tag, vr.EqBytes(c.ResponderToInitiatorEncryptionKey, ks[le+la:2*le+la]))
		vr.Assert("c08.slice.ar2i"+tag, vr.EqBytes(c.ResponderToInitiatorIntegrityKey, ks[2*le+la:2*le+2*la]))
	}
	c1 := mk()
	gn := vGuarded(nonce)
	err := c1.GenerateKeyForChildSA(ike, gn[:ln])
	vr.Assert("c08.nonce-untouched", vGuardIntact(gn, nonce))
	vr.Assert("c08.noerr", err == nil)
	if err != nil {
		return
	}
	check(c1, "")
	// each key is a value of its own: extending one (a consumer appending a salt, say) leaves the others
	for _, k := range [][]byte{c1.InitiatorToResponderEncryptionKey, c1.InitiatorToResponderIntegrityKey, c1.ResponderToInitiatorEncryptionKey} {
		_ = append(k, 0xEE, 0xEE, 0xEE, 0xEE)
	}
	check(c1, ".after-append")
	c2 := mk()
	err = c2.GenerateKeyForChildSA(ike, append([]byte{}, nonce...))
	vr.Assert("c08.noerr.second", err == nil)
	if err != nil {
		return
	}
	check(c2, ".second")
	// a further derivation with the same nonce but the largest suite (AES-256 + SHA2-256-128): nothing kept
	// from the earlier derivations is reused for a request it does not cover
	c3 := &ChildSAKey{EncrKInfo: encr.StrToKType(vEncrNames[2]), IntegKInfo: integ.StrToKType(vIntegNames[2])}
	err = c3.GenerateKeyForChildSA(ike, append([]byte{}, nonce...))
	vr.Assert("c08.noerr.third", err == nil)
	if err != nil {
		return
	}
	le, la = vEncrKey[2], vIntegKey[2]
	ks = vPrfPlus(vPrfHash[pi], skd, nonce, 2*(le+la))
	check(c3, ".third")
}

// HNewIKESAKey (C07): an SA built from a proposal through NewIKESAKey: the local public value and the
// keys follow from the exponent the random source delivered, the peer's public value, the nonces and
// the SPIs in the order initiator, responder.  Params: dh idx, encr idx, integ idx, prf idx.
func HNewIKESAKey() {
	di, ei, ii, pi := vr.Param(0), vr.Param(1), vr.Param(2), vr.Param(3)
	p := &message.Proposal{ProposalNumber: 1, ProtocolID: message.TypeIKE}
	et, err := encr.ToTransform(encr.StrToType(vEncrNames[ei]))
	vr.Assert("c07.new.totransform", err == nil)
	p.EncryptionAlgorithm = append(p.EncryptionAlgorithm, et)
	p.IntegrityAlgorithm = append(p.IntegrityAlgorithm, integ.ToTransform(integ.StrToType(vIntegNames[ii])))
	p.PseudorandomFunction = append(p.PseudorandomFunction, prf.ToTransform(prf.StrToType(vPrfNames[pi])))
	p.DiffieHellmanGroup = append(p.DiffieHellmanGroup, dh.ToTransform(dh.StrToType(vDhNames[di])))
	peer := vr.Bytes(vDhLen[di])
	nonce := vr.Bytes(8)
	si, sr := vr.U64(), vr.U64()
	pbuf, nbuf := vGuarded(peer), vGuarded(nonce)
	k, pub, err := NewIKESAKey(p, pbuf[:len(peer)], nbuf[:len(nonce)], si, sr)
	vr.Assert("c07.new.arguments-untouched", vr.All(vGuardIntact(pbuf, peer), vGuardIntact(nbuf, nonce)))
	vr.Assert("c07.new.noerr", err == nil && k != nil)
	if err != nil || k == nil {
		return
	}
	log := vr.RandIntLog()
	vr.Assert("c07.new.one-exponent", len(log) >= 1)
	if len(log) < 1 {
		return
	}
	x := new(big.Int).SetBytes(log[len(log)-1])
	g := dh.StrToType(vDhNames[di])
	vr.Assert("c07.new.public", vr.EqBytes(pub, g.GetPublicValue(x)))
	shared := g.GetSharedKey(x, new(big.Int).SetBytes(peer))
	h := vPrfHash[pi]
	skeyseed := vr.HMAC(h, nonce, shared)
	seed := append(append(append([]byte{}, nonce...), vU64Bytes(si)...), vU64Bytes(sr)...)
	lp, la, le := vPrfLen[pi], vIntegKey[ii], vEncrKey[ei]
	ks := vPrfPlus(h, skeyseed, seed, 3*lp+2*la+2*le)
	o := 0
	next := func(n int) []byte { r := ks[o : o+n]; o += n; return r }
	vr.Assert("c07.new.sk_d", vr.EqBytes(k.SK_d, next(lp)))
	vr.Assert("c07.new.sk_ai", vr.EqBytes(k.SK_ai, next(la)))
	vr.Assert("c07.new.sk_ar", vr.EqBytes(k.SK_ar, next(la)))
	vr.Assert("c07.new.sk_ei", vr.EqBytes(k.SK_ei, next(le)))
	vr.Assert("c07.new.sk_er", vr.EqBytes(k.SK_er, next(le)))
	vr.Assert("c07.new.sk_pi", vr.EqBytes(k.SK_pi, next(lp)))
	vr.Assert("c07.new.sk_pr", vr.EqBytes(k.SK_pr, next(lp)))
}
