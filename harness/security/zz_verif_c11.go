package security

import (
	vr "github.com/free5gc/ike/internal/verifrt"
	"github.com/free5gc/ike/message"
	"github.com/free5gc/ike/security/dh"
	"github.com/free5gc/ike/security/encr"
	"github.com/free5gc/ike/security/esn"
	"github.com/free5gc/ike/security/integ"
	"github.com/free5gc/ike/security/prf"
)

// Independent registry tables (IANA IKEv2 parameters, RFC 3602 / 2403 / 2404 / 4868 / 2409 / 3526).
var (
	vEncrID    = uint16(12)
	vEncrBits  = []uint16{128, 192, 256}
	vIntegIDs  = []uint16{1, 2, 12}
	vPrfIDs    = []uint16{1, 2, 5}
	vDhNames   = []string{dh.DH_1024_BIT_MODP, dh.DH_2048_BIT_MODP}
	vDhIDs     = []uint16{2, 14}
	vDhLen     = []int{128, 256}
	vEsnNames  = []string{esn.String_ESN_DISABLE, esn.String_ESN_ENABLE}
	vEsnIDs    = []uint16{0, 1}
	vTypeOf    = []uint8{1, 1, 3, 3, 2, 4, 5} // transform type per kind below
)

// vWire sends a transform through SA Marshal / Unmarshal inside a one-transform proposal.
func vWire(t *message.Transform) (*message.Transform, bool) {
	p := &message.Proposal{ProposalNumber: 1, ProtocolID: message.TypeIKE}
	switch t.TransformType {
	case message.TypeEncryptionAlgorithm:
		p.EncryptionAlgorithm = append(p.EncryptionAlgorithm, t)
	case message.TypePseudorandomFunction:
		p.PseudorandomFunction = append(p.PseudorandomFunction, t)
	case message.TypeIntegrityAlgorithm:
		p.IntegrityAlgorithm = append(p.IntegrityAlgorithm, t)
	case message.TypeDiffieHellmanGroup:
		p.DiffieHellmanGroup = append(p.DiffieHellmanGroup, t)
	default:
		p.ExtendedSequenceNumbers = append(p.ExtendedSequenceNumbers, t)
	}
	sa := &message.SecurityAssociation{Proposals: message.ProposalContainer{p}}
	b, err := sa.Marshal()
	if err != nil {
		return nil, false
	}
	d := new(message.SecurityAssociation)
	if err := d.Unmarshal(b); err != nil || len(d.Proposals) != 1 {
		return nil, false
	}
	q := d.Proposals[0]
	all := append(append(append(append(append(message.TransformContainer{}, q.EncryptionAlgorithm...), q.PseudorandomFunction...),
		q.IntegrityAlgorithm...), q.DiffieHellmanGroup...), q.ExtendedSequenceNumbers...)
	if len(all) != 1 {
		return nil, false
	}
	return all[0], true
}

// HNameRoundTrip (C11): every advertised algorithm converts to a transform that survives the wire and
// converts back to the same descriptor, with the lengths the RFCs prescribe.
// Params: kind (0 encr IKE, 1 encr Child, 2 integ IKE, 3 integ Child, 4 prf, 5 dh, 6 esn), index, viaWire.
func HNameRoundTrip() {
	kind, i, wire := vr.Param(0), vr.Param(1), vr.Param(2)
	through := func(t *message.Transform) *message.Transform {
		vr.Assert("c11.type", t.TransformType == vTypeOf[kind])
		if wire == 0 {
			return t
		}
		w, ok := vWire(t)
		vr.Assert("c11.wire.ok", ok)
		if !ok {
			return t
		}
		return w
	}
	switch kind {
	case 0:
		a := encr.StrToType(vEncrNames[i])
		vr.Assert("c11.advertised", a != nil)
		t, err := encr.ToTransform(a)
		vr.Assert("c11.totransform.noerr", err == nil)
		vr.Assert("c11.id", t.TransformID == vEncrID && t.AttributePresent && t.AttributeFormat == message.AttributeFormatUseTV &&
			t.AttributeType == 14 && t.AttributeValue == vEncrBits[i])
		vr.Assert("c11.same", encr.DecodeTransform(through(t)) == a)
		vr.Assert("c11.lengths", a.GetKeyLength() == vEncrKey[i])
	case 1:
		a := encr.StrToKType(vEncrNames[i])
		vr.Assert("c11.advertised", a != nil)
		t, err := encr.ToTransformChildSA(a)
		vr.Assert("c11.totransform.noerr", err == nil)
		vr.Assert("c11.id", t.TransformID == vEncrID && t.AttributePresent && t.AttributeFormat == message.AttributeFormatUseTV &&
			t.AttributeType == 14 && t.AttributeValue == vEncrBits[i])
		vr.Assert("c11.same", encr.DecodeTransformChildSA(through(t)) == a)
		vr.Assert("c11.lengths", a.GetKeyLength() == vEncrKey[i])
	case 2:
		a := integ.StrToType(vIntegNames[i])
		vr.Assert("c11.advertised", a != nil)
		t := integ.ToTransform(a)
		vr.Assert("c11.id", t.TransformID == vIntegIDs[i] && !t.AttributePresent)
		vr.Assert("c11.same", integ.DecodeTransform(through(t)) == a)
		vr.Assert("c11.lengths", a.GetKeyLength() == vIntegKey[i] && a.GetOutputLength() == vIntegOut[i])
	case 3:
		a := integ.StrToKType(vIntegNames[i])
		vr.Assert("c11.advertised", a != nil)
		t := integ.ToTransformChildSA(a)
		vr.Assert("c11.id", t.TransformID == vIntegIDs[i] && !t.AttributePresent)
		vr.Assert("c11.same", integ.DecodeTransformChildSA(through(t)) == a)
		vr.Assert("c11.lengths", a.GetKeyLength() == vIntegKey[i])
	case 4:
		a := prf.StrToType(vPrfNames[i])
		vr.Assert("c11.advertised", a != nil)
		t := prf.ToTransform(a)
		vr.Assert("c11.id", t.TransformID == vPrfIDs[i] && !t.AttributePresent)
		vr.Assert("c11.same", prf.DecodeTransform(through(t)) == a)
		vr.Assert("c11.lengths", a.GetKeyLength() == vPrfLen[i] && a.GetOutputLength() == vPrfLen[i])
	case 5:
		a := dh.StrToType(vDhNames[i])
		vr.Assert("c11.advertised", a != nil)
		t := dh.ToTransform(a)
		vr.Assert("c11.id", t.TransformID == vDhIDs[i] && !t.AttributePresent)
		vr.Assert("c11.same", dh.DecodeTransform(through(t)) == a)
	default:
		a, err := esn.StrToType(vEsnNames[i])
		vr.Assert("c11.advertised", err == nil)
		t := esn.ToTransform(a)
		vr.Assert("c11.id", t.TransformID == vEsnIDs[i] && !t.AttributePresent)
		b, err := esn.DecodeTransform(through(t))
		vr.Assert("c11.same", err == nil && b.GetNeedESN() == a.GetNeedESN() && a.GetNeedESN() == (i == 1))
	}
}

// vGenAnyTransform: a transform with symbolic identifier and attribute, in one of the forms a decoder
// or builder produces.  form 0 absent, 1 TV, 2 TLV (1..3 value octets), 3 TLV (16..256 value octets).
func vGenAnyTransform(ttype uint8, form int) *message.Transform {
	t := &message.Transform{TransformType: ttype, TransformID: vr.U16()}
	switch form {
	case 1:
		t.AttributePresent, t.AttributeFormat = true, message.AttributeFormatUseTV
		t.AttributeType, t.AttributeValue = vr.U16()&0x7fff, vr.U16()
	case 2:
		t.AttributePresent, t.AttributeFormat = true, message.AttributeFormatUseTLV
		t.AttributeType = vr.U16() & 0x7fff
		t.VariableLengthAttributeValue = vr.Bytes(vr.IntOf(1, 2, 3))
	case 3:
		// TLV whose value length coincides with a key size in octets or bits
		t.AttributePresent, t.AttributeFormat = true, message.AttributeFormatUseTLV
		t.AttributeType = vr.U16() & 0x7fff
		t.VariableLengthAttributeValue = vr.Bytes(vr.IntOf(16, 24, 32, 128, 192, 256))
	}
	return t
}

// HDecodeSymbolic (C11): a received transform is never mapped to an algorithm with a different
// identifier or key size: for a transform with symbolic identifier (all 65536 at once) and symbolic
// attribute, result != nil implies exactly the advertised (identifier, attribute, key size).
// Params: kind (as above), form, viaWire.
func HDecodeSymbolic() {
	kind, form, wire := vr.Param(0), vr.Param(1), vr.Param(2)
	src := vGenAnyTransform(vTypeOf[kind], form)
	t := src
	if wire == 1 {
		w, ok := vWire(src)
		if !ok {
			vr.Cover("c11.symbolic.not-encodable")
			return
		}
		t = w
	}
	// what the sender put on the wire decides what may be negotiated: the conditions are evaluated on the
	// transform as it was built (src), the decode function sees the received one (t)
	keyAttr := src.AttributePresent && src.AttributeFormat == message.AttributeFormatUseTV && src.AttributeType == 14
	switch kind {
	case 0:
		r := encr.DecodeTransform(t)
		for i := range vEncrNames {
			match := vr.All(src.TransformID == vEncrID, keyAttr, src.AttributeValue == vEncrBits[i])
			vr.Assert("c11.mapped-iff-advertised", vr.Implies(match, r == encr.StrToType(vEncrNames[i])))
		}
		vr.Assert("c11.nonnil-implies-advertised", vr.Implies(r != nil, vr.All(src.TransformID == vEncrID, keyAttr,
			vr.Any(src.AttributeValue == 128, src.AttributeValue == 192, src.AttributeValue == 256))))
		if r != nil {
			vr.Assert("c11.keysize", int(src.AttributeValue) == 8*r.GetKeyLength())
		}
	case 1:
		r := encr.DecodeTransformChildSA(t)
		vr.Assert("c11.nonnil-implies-advertised", vr.Implies(r != nil, vr.All(src.TransformID == vEncrID, keyAttr,
			vr.Any(src.AttributeValue == 128, src.AttributeValue == 192, src.AttributeValue == 256))))
		if r != nil {
			vr.Assert("c11.keysize", int(src.AttributeValue) == 8*r.GetKeyLength())
		}
	case 2:
		r := integ.DecodeTransform(t)
		vr.Assert("c11.nonnil-implies-advertised", vr.Implies(r != nil, vr.Any(src.TransformID == 1, src.TransformID == 2, src.TransformID == 12)))
		if r != nil {
			vr.Assert("c11.same-id", r.TransformID() == src.TransformID)
		}
	case 3:
		r := integ.DecodeTransformChildSA(t)
		vr.Assert("c11.nonnil-implies-advertised", vr.Implies(r != nil, vr.Any(src.TransformID == 1, src.TransformID == 2, src.TransformID == 12)))
		if r != nil {
			vr.Assert("c11.same-id", r.TransformID() == src.TransformID)
		}
	case 4:
		r := prf.DecodeTransform(t)
		vr.Assert("c11.nonnil-implies-advertised", vr.Implies(r != nil, vr.Any(src.TransformID == 1, src.TransformID == 2, src.TransformID == 5)))
		if r != nil {
			vr.Assert("c11.same-id", r.TransformID() == src.TransformID)
		}
	case 5:
		r := dh.DecodeTransform(t)
		vr.Assert("c11.nonnil-implies-advertised", vr.Implies(r != nil, vr.Any(src.TransformID == 2, src.TransformID == 14)))
		if r != nil {
			vr.Assert("c11.same-id", r.TransformID() == src.TransformID)
		}
	default:
		r, err := esn.DecodeTransform(t)
		vr.Assert("c11.nonnil-implies-advertised", vr.Implies(err == nil, vr.Any(src.TransformID == 0, src.TransformID == 1)))
		if err == nil {
			vr.Assert("c11.same-id", r.TransformID() == src.TransformID)
		}
	}
}

// HProposalRejected (C11): building an SA from a single-choice proposal that contains one transform
// outside the advertised set fails with an error.  Params: ike (1) / child (0), which transform is
// the foreign one (0 encr, 1 integ, 2 prf / esn, 3 dh), its form.
func HProposalRejected() {
	ike, which, form := vr.Param(0), vr.Param(1), vr.Param(2)
	good := func(a *message.Transform, err error) *message.Transform { return a }
	p := &message.Proposal{ProposalNumber: 1}
	e := good(encr.ToTransform(encr.StrToType(vEncrNames[1])))
	in := integ.ToTransform(integ.StrToType(vIntegNames[1]))
	pf := prf.ToTransform(prf.StrToType(vPrfNames[2]))
	d := dh.ToTransform(dh.StrToType(vDhNames[0]))
	es := esn.ToTransform(esn.ESN{})
	bad := vGenAnyTransform([]uint8{1, 3, 2, 4}[which], form)
	keyAttr := bad.AttributePresent && bad.AttributeFormat == message.AttributeFormatUseTV && bad.AttributeType == 14
	switch which {
	case 0:
		vr.Assume(!vr.All(bad.TransformID == vEncrID, keyAttr, vr.Any(bad.AttributeValue == 128, bad.AttributeValue == 192, bad.AttributeValue == 256)))
		e = bad
	case 1:
		vr.Assume(bad.TransformID != 1 && bad.TransformID != 2 && bad.TransformID != 12)
		in = bad
	case 2:
		if ike == 1 {
			vr.Assume(bad.TransformID != 1 && bad.TransformID != 2 && bad.TransformID != 5)
			pf = bad
		} else {
			bad.TransformType = 5
			vr.Assume(bad.TransformID != 0 && bad.TransformID != 1)
			es = bad
		}
	default:
		vr.Assume(bad.TransformID != 2 && bad.TransformID != 14)
		d = bad
	}
	p.EncryptionAlgorithm = append(p.EncryptionAlgorithm, e)
	p.IntegrityAlgorithm = append(p.IntegrityAlgorithm, in)
	p.DiffieHellmanGroup = append(p.DiffieHellmanGroup, d)
	if ike == 1 {
		p.PseudorandomFunction = append(p.PseudorandomFunction, pf)
		k, pub, err := NewIKESAKey(p, vr.Bytes(128), vr.Bytes(8), vr.U64(), vr.U64())
		vr.Assert("c11.rejected", err != nil && k == nil && pub == nil)
	} else {
		p.ExtendedSequenceNumbers = append(p.ExtendedSequenceNumbers, es)
		k, err := NewChildSAKeyByProposal(p)
		vr.Assert("c11.rejected", err != nil && k == nil)
	}
}

// HProposalRoundTrip (C11): the algorithms an SA advertises through its proposal survive the wire and
// convert back to the same descriptors.  Params: ike (1) / child (0), encr idx, integ idx, prf idx (ike) or
// esn idx (child), dh idx (child: 2 = none).
func HProposalRoundTrip() {
	ike, ei, ii, pi, di := vr.Param(0), vr.Param(1), vr.Param(2), vr.Param(3), vr.Param(4)
	wire := func(p *message.Proposal) *message.Proposal {
		sa := &message.SecurityAssociation{Proposals: message.ProposalContainer{p}}
		b, err := sa.Marshal()
		vr.Assert("c11.proposal.marshal", err == nil)
		d := new(message.SecurityAssociation)
		err = d.Unmarshal(b)
		vr.Assert("c11.proposal.unmarshal", err == nil && len(d.Proposals) == 1)
		if err != nil || len(d.Proposals) != 1 {
			return p
		}
		return d.Proposals[0]
	}
	if ike == 1 {
		k := &IKESAKey{DhInfo: dh.StrToType(vDhNames[di]), EncrInfo: encr.StrToType(vEncrNames[ei]),
			IntegInfo: integ.StrToType(vIntegNames[ii]), PrfInfo: prf.StrToType(vPrfNames[pi])}
		p, err := k.ToProposal()
		vr.Assert("c11.proposal.noerr", err == nil && p != nil)
		if err != nil || p == nil {
			return
		}
		vr.Assert("c11.proposal.shape", p.ProtocolID == message.TypeIKE && len(p.EncryptionAlgorithm) == 1 && len(p.IntegrityAlgorithm) == 1 &&
			len(p.PseudorandomFunction) == 1 && len(p.DiffieHellmanGroup) == 1 && len(p.ExtendedSequenceNumbers) == 0)
		if len(p.EncryptionAlgorithm) != 1 || len(p.IntegrityAlgorithm) != 1 || len(p.PseudorandomFunction) != 1 || len(p.DiffieHellmanGroup) != 1 {
			return
		}
		q := wire(p)
		vr.Assert("c11.proposal.same", vr.All(encr.DecodeTransform(q.EncryptionAlgorithm[0]) == k.EncrInfo,
			integ.DecodeTransform(q.IntegrityAlgorithm[0]) == k.IntegInfo, prf.DecodeTransform(q.PseudorandomFunction[0]) == k.PrfInfo,
			dh.DecodeTransform(q.DiffieHellmanGroup[0]) == k.DhInfo))
		// the same object advertises what it holds *now*: another key size under the same transform id
		k.EncrInfo = encr.StrToType(vEncrNames[(ei+1)%3])
		p2, err := k.ToProposal()
		vr.Assert("c11.proposal.again.noerr", err == nil && p2 != nil && len(p2.EncryptionAlgorithm) == 1)
		if err == nil && p2 != nil && len(p2.EncryptionAlgorithm) == 1 {
			vr.Assert("c11.proposal.again.same", encr.DecodeTransform(wire(p2).EncryptionAlgorithm[0]) == k.EncrInfo)
		}
		return
	}
	es, err := esn.StrToType(vEsnNames[pi%2])
	vr.Assert("c11.proposal.esn", err == nil)
	c := &ChildSAKey{EncrKInfo: encr.StrToKType(vEncrNames[ei]), IntegKInfo: integ.StrToKType(vIntegNames[ii]), EsnInfo: es}
	if di < 2 {
		c.DhInfo = dh.StrToType(vDhNames[di])
	}
	p, err := c.ToProposal()
	vr.Assert("c11.proposal.noerr", err == nil && p != nil)
	if err != nil || p == nil {
		return
	}
	wantDh := 0
	if di < 2 {
		wantDh = 1
	}
	vr.Assert("c11.proposal.shape", p.ProtocolID == message.TypeESP && len(p.EncryptionAlgorithm) == 1 && len(p.IntegrityAlgorithm) == 1 &&
		len(p.ExtendedSequenceNumbers) == 1 && len(p.DiffieHellmanGroup) == wantDh && len(p.PseudorandomFunction) == 0)
	back, err := NewChildSAKeyByProposal(wire(p))
	vr.Assert("c11.proposal.back.noerr", err == nil && back != nil)
	if err != nil || back == nil {
		return
	}
	vr.Assert("c11.proposal.same", vr.All(back.EncrKInfo == c.EncrKInfo, back.IntegKInfo == c.IntegKInfo,
		back.EsnInfo.GetNeedESN() == c.EsnInfo.GetNeedESN(), back.DhInfo == c.DhInfo))
}
