package dh

import (
	"math/big"

	vr "github.com/free5gc/ike/internal/verifrt"
)

var vNames = []string{DH_1024_BIT_MODP, DH_2048_BIT_MODP}
var vLen = []int{128, 256}

func vGroup(i int) (factor, generator *big.Int, l int) {
	switch g := StrToType(vNames[i]).(type) {
	case *Dh1024BitModp:
		return g.factor, g.generator, g.factorBytesLength
	case *DH2048BitModp:
		return g.factor, g.generator, g.factorBytesLength
	}
	return nil, nil, 0
}

// HPrimes (C09): the group constants equal the RFC 2409 / RFC 3526 primes.  The oracle is computed by
// the runner from the defining formula 2^n - 2^(n-64) - 1 + 2^64 * (floor(2^(n-130) * pi) + c) with
// 900-digit pi, and handed in as SParam(group).
func HPrimes() {
	i := vr.Param(0)
	want, ok := new(big.Int).SetString(vr.SParam(i), 16)
	vr.Assert("c09.oracle.parsed", ok)
	f, g, l := vGroup(i)
	vr.Assert("c09.prime", f != nil && f.Cmp(want) == 0)
	vr.Assert("c09.generator", g != nil && g.Cmp(new(big.Int).SetUint64(2)) == 0)
	vr.Assert("c09.length", l == vLen[i])
}

// HPublicValue (C09): GetPublicValue(x) is the big-endian image of 2^x mod p on exactly the modulus
// length, leading zeros preserved, for every exponent 0 <= x < 2^2048 (the executor forks over every
// possible minimal length of the result).  Param: group.
func HPublicValue() {
	i := vr.Param(0)
	f, _, _ := vGroup(i)
	xb := vr.Bytes(256)
	x := new(big.Int).SetBytes(xb)
	out := StrToType(vNames[i]).GetPublicValue(x)
	vr.Assert("c09.len", len(out) == vLen[i])
	if len(out) == vLen[i] {
		vr.Assert("c09.value", vr.EqBytes(out, vr.ModExpBytes([]byte{2}, xb, f.Bytes(), vLen[i])))
	}
	vr.Assert("c09.operands-unchanged", x.Cmp(new(big.Int).SetBytes(xb)) == 0)
}

// HSharedKey (C09): GetSharedKey(x, y) is the big-endian image of y^x mod p on exactly the modulus
// length for every x < 2^2048 and every peer value y < 2^2056.  Param: group.
func HSharedKey() {
	i := vr.Param(0)
	f, _, _ := vGroup(i)
	xb, yb := vr.Bytes(256), vr.Bytes(257)
	x, y := new(big.Int).SetBytes(xb), new(big.Int).SetBytes(yb)
	out := StrToType(vNames[i]).GetSharedKey(x, y)
	vr.Assert("c09.len", len(out) == vLen[i])
	if len(out) == vLen[i] {
		vr.Assert("c09.value", vr.EqBytes(out, vr.ModExpBytes(yb, xb, f.Bytes(), vLen[i])))
	}
	// the caller's numbers are operands, not scratch space: the same call again gives the same secret
	vr.Assert("c09.operands-unchanged", x.Cmp(new(big.Int).SetBytes(xb)) == 0 && y.Cmp(new(big.Int).SetBytes(yb)) == 0)
}

// HAgreement (C09): two parties compute the same shared secret from each other's public values
// (modular exponentiation commutes in the exponents: the one algebraic fact assumed of big.Int.Exp).
// Param: group.
func HAgreement() {
	i := vr.Param(0)
	g := StrToType(vNames[i])
	a, b := new(big.Int).SetBytes(vr.Bytes(256)), new(big.Int).SetBytes(vr.Bytes(256))
	pa, pb := g.GetPublicValue(a), g.GetPublicValue(b)
	s1 := g.GetSharedKey(a, new(big.Int).SetBytes(pb))
	s2 := g.GetSharedKey(b, new(big.Int).SetBytes(pa))
	vr.Assert("c09.agree", vr.EqBytes(s1, s2))
}
