package ike

import (
	"hash"

	vr "github.com/free5gc/ike/internal/verifrt"
	"github.com/free5gc/ike/message"
	"github.com/free5gc/ike/security"
	ikeCrypto "github.com/free5gc/ike/security/IKECrypto"
)

// vValid is the specification of a valid datagram for a receiver acting as role recvRole: the last
// icv octets equal the truncated HMAC, under the *sender's* (= opposite role's) integrity key, of
// everything before them.  Hash, output length and key direction come from the independent tables.
func vValid(km *VKeyMaterial, recvRole int, b []byte) bool {
	icv := VIntegOutLen[km.Suite%3]
	if len(b) < icv {
		return false
	}
	_, ka := vSenderKeys(km, 1-recvRole)
	return vr.EqBytes(b[len(b)-icv:], VSpecICV(km.Suite, ka, b[:len(b)-icv]))
}

// vAcceptObligations: O2 (accept through the SK branch implies a valid ICV) and O4 (otherwise no key
// is applied and the result is the plain decoding).
func vAcceptObligations(km *VKeyMaterial, recvRole int, b []byte, valid bool, r *message.IKEMessage, err error, mac0, ciph0 int) {
	if err != nil {
		vr.Cover("c02.rejected")
		return
	}
	if vr.MacCalls() > mac0 || vr.CipherCalls() > ciph0 {
		vr.Cover("c02.accepted-sk")
		vr.Assert("c02.accept-implies-valid", valid)
		return
	}
	vr.Cover("c02.accepted-plain")
	// handled as an unprotected datagram only if it does not present an Encrypted payload up front
	vr.Assert("c02.plain-only-when-not-sk", len(r.Payloads) == 0 || r.Payloads[0].Type() != message.TypeSK)
	// nor when its header announces one as the first payload and payload octets follow (the tolerated
	// alteration is a first-payload type that no longer says Encrypted)
	vr.Assert("c02.plain-only-when-not-announced-sk", len(b) <= 28 || b[16] != 46)
	d := new(message.IKEMessage)
	derr := d.Decode(b)
	vr.Assert("c02.plain-when-not-sk", derr == nil && message.VEqMessage(d, r))
}

type vSpyCrypto struct {
	inner ikeCrypto.IKECrypto
	dec   *int
}

func (s *vSpyCrypto) Encrypt(p []byte) ([]byte, error) { return s.inner.Encrypt(p) }
func (s *vSpyCrypto) Decrypt(c []byte) ([]byte, error) { *s.dec++; return s.inner.Decrypt(c) }

// vNativeForge is the native confirmation of counterexamples that live in the solver's model of the
// uninterpreted MAC (O2 / O3).  It learns, with a spying hash object in the SA's public interface
// fields, which checksum the code under test expects for the datagram, writes that checksum into the
// datagram and presents it again with the real HMAC: if the datagram is then accepted (or its
// ciphertext reaches the cipher) although its ICV is not the HMAC over everything before it, the
// violation is real.
func vNativeForge(km *VKeyMaterial, k *security.IKESAKey, recvRole int, hdrMode int, b []byte) {
	icv := VIntegOutLen[km.Suite%3]
	try := func(x []byte) (accepted bool, decs int, sums [][]byte) {
		si := &vr.SpyHash{Inner: k.Integ_i}
		sr := &vr.SpyHash{Inner: k.Integ_r}
		var hi, hr hash.Hash = si, sr
		k2 := *k
		k2.Integ_i, k2.Integ_r = hi, hr
		n := 0
		k2.Encr_i = &vSpyCrypto{inner: k.Encr_i, dec: &n}
		k2.Encr_r = &vSpyCrypto{inner: k.Encr_r, dec: &n}
		var h *message.IKEHeader
		if hdrMode == 1 {
			var err error
			if h, err = message.ParseHeader(x); err != nil {
				return false, 0, nil
			}
		}
		_, err := DecodeDecrypt(x, h, &k2, vRole(recvRole))
		return err == nil && (len(si.Sums)+len(sr.Sums) > 0 || n > 0), n, append(si.Sums, sr.Sums...)
	}
	check := func(x []byte) {
		acc, decs, _ := try(x)
		valid := vValid(km, recvRole, x)
		if decs > 0 {
			vr.Assert("c02.cipher-after-mac", valid)
		}
		if acc {
			vr.Assert("c02.accept-implies-valid", valid)
		}
	}
	check(b)
	_, _, sums := try(b)
	for _, s := range sums {
		if len(b) >= icv && len(s) >= icv {
			x := append([]byte{}, b...)
			copy(x[len(x)-icv:], s[:icv])
			check(x)
		}
	}
}

// HUnprotectArbitrary (C02 O2-O4): DecodeDecrypt on an arbitrary datagram.
// Params: suite, receiver role, hdrMode, length, family (1 = first payload spans the datagram; 2 = an
// unsupported non-critical payload of Param(5) octets in front of an Encrypted payload spanning the rest).
func HUnprotectArbitrary() {
	suite, role, hdrMode, n, family := vr.Param(0), vr.Param(1), vr.Param(2), vr.Param(3), vr.Param(4)
	km := VGenKeyMaterial(suite)
	k := VNewKey(km)
	b := vr.Input(n)
	if family == 1 {
		if n < 32 {
			return
		}
		vr.Assume(int(b[30])<<8|int(b[31]) == n-28)
		vr.Assume(b[16] == uint8(message.TypeSK))
	}
	if family == 2 && vFrontSkipped(b, n, vr.Param(5)) < 0 {
		return
	}
	if vr.Native() {
		vNativeForge(km, k, role, hdrMode, b)
		// O4 needs no forging: an acceptance that used no key is checked as it stands
		si, sr := &vr.SpyHash{Inner: k.Integ_i}, &vr.SpyHash{Inner: k.Integ_r}
		k2, decs := *k, 0
		k2.Integ_i, k2.Integ_r = si, sr
		k2.Encr_i = &vSpyCrypto{inner: k.Encr_i, dec: &decs}
		k2.Encr_r = &vSpyCrypto{inner: k.Encr_r, dec: &decs}
		var h *message.IKEHeader
		if hdrMode == 1 {
			var err error
			if h, err = message.ParseHeader(b); err != nil {
				return
			}
		}
		r, err := DecodeDecrypt(b, h, &k2, vRole(role))
		if err == nil && len(si.Sums)+len(sr.Sums) == 0 && decs == 0 {
			vAcceptObligations(km, role, b, vValid(km, role, b), r, err, 0, 0)
		}
		return
	}
	valid := vValid(km, role, b)
	// only datagrams with an invalid ICV are of interest: for those the cipher must never be reached
	// and the SK branch must never accept (for valid ones both obligations are trivially true; that
	// decryption and inner decoding of arbitrary plaintext do not crash is C04's business)
	vr.Assume(!valid)
	vr.GuardCipher("c02.cipher-after-mac", valid)
	var h *message.IKEHeader
	if hdrMode == 1 {
		var err error
		h, err = message.ParseHeader(b)
		if err != nil {
			vr.Cover("c02.header-rejected")
			return
		}
	}
	mac0, ciph0 := vr.MacCalls(), vr.CipherCalls()
	r, err := DecodeDecrypt(b, h, k, vRole(role))
	vAcceptObligations(km, role, b, valid, r, err, mac0, ciph0)
}

// HTamperGenuine (C02): a genuine protected message is altered - one octet anywhere replaced by any
// other value (covers every single-bit flip), truncated to any proper prefix, or extended - and
// presented to the legitimate receiver; also the unmodified message is presented to the role that
// produced it (reflection) and to a receiver holding different keys.  In every case acceptance through
// the SK branch implies that the presented datagram carries a valid ICV for that receiver, which under
// the ideal-MAC reading (no collisions, distinct keys give distinct MACs) never happens for a modified
// or misdirected message.
// Params: suite, sender role, mode (0 edit, 1 truncate, 2 extend, 3 reflect, 4 other keys, 5 structured
// extension with adjusted header length), tier, kinds..., 0.
func HTamperGenuine() {
	suite, role, mode, tier := vr.Param(0), vr.Param(1), vr.Param(2), vr.Param(3)
	km := VGenKeyMaterial(suite)
	kS := VNewKey(km)
	m := message.VGenMessage(4, tier)
	g, err := EncodeEncrypt(m, kS, vRole(role))
	vr.Assert("c02.genuine.protect.noerr", err == nil)
	if err != nil {
		return
	}
	recv := 1 - role
	kmR := km
	editPos := -1
	var b []byte
	switch mode {
	case 0:
		i := vr.IntIn(0, len(g)-1)
		// the two octets of the Encrypted payload's length field are excluded here: shortening that field
		// makes the walker parse the (symbolic) ciphertext as further payloads, which forks without bound;
		// that class is covered by HUnprotectArbitrary (arbitrary chains, O2-O4) at its smaller sizes
		vr.Assume(i != 30 && i != 31)
		// octet 16 (the header's first-payload type) is the tolerated alteration: the datagram is then
		// handled as an unprotected one (O4, decided by HUnprotectArbitrary for every first-payload type)
		vr.Assume(i != 16)
		editPos = i
		v := vr.U8()
		vr.Assume(v != g[i])
		b = append([]byte{}, g...)
		b[i] = v
	case 1:
		b = append([]byte{}, g[:vr.IntIn(0, len(g)-1)]...)
	case 2:
		b = append(append([]byte{}, g...), vr.Bytes(vr.IntOf(1, 4, 16))...)
	case 5:
		// structured extension: a well-formed further payload (of the type the SK header announces) is
		// appended behind the Encrypted payload and the header length field is adjusted
		body := vr.Bytes(vr.IntOf(0, 1, 5))
		b = append([]byte{}, g...)
		b = append(b, 0, vr.U8()&0x7f, byte((4+len(body))>>8), byte(4+len(body)))
		b = append(b, body...)
		b[24], b[25], b[26], b[27] = byte(len(b)>>24), byte(len(b)>>16), byte(len(b)>>8), byte(len(b))
	case 3:
		b = append([]byte{}, g...)
		recv = role
	default:
		b = append([]byte{}, g...)
		kmR = VGenKeyMaterial(suite)
	}
	kR := VNewKey(kmR)
	if vr.Native() {
		vNativeForge(kmR, kR, recv, 0, b)
		if !(mode == 0 && editPos == 16) && !vValid(kmR, recv, b) {
			_, err := DecodeDecrypt(b, nil, kR, vRole(recv))
			vr.Assert("c02.tampered-rejected", err != nil)
		}
		return
	}
	valid := vValid(kmR, recv, b)
	// ideal-MAC reading: a modified or misdirected message never carries a valid ICV for this receiver
	// (collision probability <= 2^-96, treated as never)
	vr.Assume(!valid)
	// ... and no collision with the genuine checksum: wherever the code looks for the checksum (e.g. at
	// the end of the Encrypted payload when further payloads follow), the MAC over a span that differs from
	// the genuine one is not the genuine checksum
	icvLen := VIntegOutLen[suite%3]
	if mode != 3 && mode != 4 && len(b) >= icvLen && !(mode == 0 && editPos >= len(g)-icvLen) {
		_, kaG := vSenderKeys(km, role)
		vr.Assume(!vr.EqBytes(g[len(g)-icvLen:], VSpecICV(suite, kaG, b[:len(b)-icvLen])))
	}
	vr.GuardCipher("c02.cipher-after-mac", valid)
	mac0, ciph0 := vr.MacCalls(), vr.CipherCalls()
	r, err := DecodeDecrypt(b, nil, kR, vRole(recv))
	if mode == 0 && editPos == 16 {
		// the one tolerated alteration: the first-payload type; if the datagram then no longer presents an
		// Encrypted payload it is handled as an unprotected datagram to which no key is applied
		vAcceptObligations(kmR, recv, b, valid, r, err, mac0, ciph0)
		return
	}
	vr.Assert("c02.tampered-rejected", err != nil)
}
