package ike

import (
	vr "github.com/free5gc/ike/internal/verifrt"
	"github.com/free5gc/ike/message"
	"github.com/free5gc/ike/security"
)

// HProtectRoundTrip (C01): DecodeDecrypt(EncodeEncrypt(m, kS, role), hdr, kR, !role) == m.
// Params: suite, sender role (0 initiator / 1 responder), hdrMode (0 nil, 1 parsed; +2 = sender and
// receiver are one and the same SA key object; +4 = both objects have been used before, i.e. their
// keyed-hash objects hold arbitrary octets), tier, payload kinds..., 0.
func HProtectRoundTrip() {
	suite, role, hdrMode, tier := vr.Param(0), vr.Param(1), vr.Param(2), vr.Param(3)
	km := VGenKeyMaterial(suite)
	junk := 0
	if hdrMode&4 != 0 {
		junk = 3
	}
	kS := vUsedKey(km, junk)
	kR := kS
	if hdrMode&2 == 0 {
		kR = vUsedKey(km, junk)
	}
	hdrMode &= 1
	m := message.VGenMessage(4, tier)
	orig := append(message.IKEPayloadContainer{}, m.Payloads...)
	hdr := *m.IKEHeader
	b, err := EncodeEncrypt(m, kS, vRole(role))
	vr.Assert("c01.protect.noerr", err == nil)
	if err != nil {
		return
	}
	var h *message.IKEHeader
	if hdrMode == 1 {
		h, err = message.ParseHeader(b)
		vr.Assert("c01.parseheader.noerr", err == nil)
		if err != nil {
			return
		}
	}
	r, err := DecodeDecrypt(b, h, kR, vRole(1-role))
	vr.Assert("c01.unprotect.noerr", err == nil)
	if err != nil {
		return
	}
	vr.Assert("c01.header.equal", message.VEqHeader(&hdr, r.IKEHeader))
	vr.Assert("c01.payloads.equal", message.VEqPayloads(orig, r.Payloads))
}

// HNoKeyRoundTrip (C01): without keys the entry points behave as plain Encode / Decode.
// Params: hdrMode, tier, payload kinds..., 0.
func HNoKeyRoundTrip() {
	hdrMode, tier := vr.Param(0), vr.Param(1)
	m := message.VGenMessage(2, tier)
	orig := append(message.IKEPayloadContainer{}, m.Payloads...)
	hdr := *m.IKEHeader
	b, err := EncodeEncrypt(m, nil, message.Role_Initiator)
	vr.Assert("c01.nokey.encode.noerr", err == nil)
	if err != nil {
		return
	}
	var h *message.IKEHeader
	if hdrMode == 1 {
		h, err = message.ParseHeader(b)
		vr.Assert("c01.parseheader.noerr", err == nil)
		if err != nil {
			return
		}
	}
	r, err := DecodeDecrypt(b, h, nil, message.Role_Responder)
	vr.Assert("c01.nokey.decode.noerr", err == nil)
	if err != nil {
		return
	}
	vr.Assert("c01.nokey.header.equal", message.VEqHeader(&hdr, r.IKEHeader))
	vr.Assert("c01.nokey.payloads.equal", message.VEqPayloads(orig, r.Payloads))
}

// HBigPayload (C01): the upper end of the encodable domain - one Nonce payload whose total length
// (generic header + data) is Param(3) octets: up to 65535 it survives the round trip (with keys, Param(0)
// >= 0 is the suite; without, Param(0) = -1), beyond that protecting / encoding returns an error instead
// of a wrapped length field.  Params: suite or -1, sender role, hdrMode, total payload length.
func HBigPayload() {
	suite, role, hdrMode, total := vr.Param(0), vr.Param(1), vr.Param(2), vr.Param(3)
	m := &message.IKEMessage{IKEHeader: message.VGenHeader()}
	data := vr.Bytes(total - 4)
	m.Payloads = message.IKEPayloadContainer{&message.Nonce{NonceData: append([]byte{}, data...)}}
	hdr := *m.IKEHeader
	var kS, kR *security.IKESAKey
	if suite >= 0 {
		km := VGenKeyMaterial(suite)
		kS, kR = VNewKey(km), VNewKey(km)
	}
	b, err := EncodeEncrypt(m, kS, vRole(role))
	if total > 65535 {
		vr.Assert("c01.big.oversize-is-an-error", err != nil)
		return
	}
	vr.Assert("c01.big.protect.noerr", err == nil)
	if err != nil {
		return
	}
	var h *message.IKEHeader
	if hdrMode == 1 {
		h, err = message.ParseHeader(b)
		vr.Assert("c01.big.parseheader.noerr", err == nil)
		if err != nil {
			return
		}
	}
	r, err := DecodeDecrypt(b, h, kR, vRole(1-role))
	vr.Assert("c01.big.unprotect.noerr", err == nil)
	if err != nil {
		return
	}
	vr.Assert("c01.big.header.equal", message.VEqHeader(&hdr, r.IKEHeader))
	n, ok := r.Payloads[0].(*message.Nonce)
	vr.Assert("c01.big.payload.equal", len(r.Payloads) == 1 && ok && vr.EqBytes(n.NonceData, data))
}
