package ike

import (
	vr "github.com/free5gc/ike/internal/verifrt"
	"github.com/free5gc/ike/message"
	"github.com/free5gc/ike/security"
	"github.com/free5gc/ike/security/dh"
	"github.com/free5gc/ike/security/encr"
	"github.com/free5gc/ike/security/integ"
	"github.com/free5gc/ike/security/prf"
)

var vPrfNames = []string{prf.PRF_HMAC_MD5, prf.PRF_HMAC_SHA1, prf.PRF_HMAC_SHA2_256}

// HTwoPartyKeys (C07): an initiator and a responder that derive their SAs from the same nonces,
// shared secret and SPIs hold identical keys and mutually usable objects: what one protects the other
// unprotects, in both directions.  Params: encr idx, integ idx, prf idx, sender role, payload kinds..., 0.
func HTwoPartyKeys() {
	ei, ii, pi, role := vr.Param(0), vr.Param(1), vr.Param(2), vr.Param(3)
	mk := func() *security.IKESAKey {
		return &security.IKESAKey{DhInfo: dh.StrToType(dh.DH_1024_BIT_MODP), EncrInfo: encr.StrToType(vEncrNames[ei]),
			IntegInfo: integ.StrToType(vIntegNames[ii]), PrfInfo: prf.StrToType(vPrfNames[pi])}
	}
	nonce, secret := vr.Bytes(vr.IntOf(1, 32)), vr.Bytes(vr.IntOf(1, 128))
	si, sr := vr.U64(), vr.U64()
	a, b := mk(), mk()
	e1 := a.GenerateKeyForIKESA(append([]byte{}, nonce...), append([]byte{}, secret...), si, sr)
	e2 := b.GenerateKeyForIKESA(append([]byte{}, nonce...), append([]byte{}, secret...), si, sr)
	vr.Assert("c07.agree.noerr", e1 == nil && e2 == nil)
	if e1 != nil || e2 != nil {
		return
	}
	vr.Assert("c07.agree.keys", vr.All(vr.EqBytes(a.SK_d, b.SK_d), vr.EqBytes(a.SK_ai, b.SK_ai), vr.EqBytes(a.SK_ar, b.SK_ar),
		vr.EqBytes(a.SK_ei, b.SK_ei), vr.EqBytes(a.SK_er, b.SK_er), vr.EqBytes(a.SK_pi, b.SK_pi), vr.EqBytes(a.SK_pr, b.SK_pr)))
	m := message.VGenMessage(4, -1)
	orig := message.VClonePayloads(m.Payloads)
	w, err := EncodeEncrypt(m, a, vRole(role))
	vr.Assert("c07.agree.protect", err == nil)
	if err != nil {
		return
	}
	r, err := DecodeDecrypt(w, nil, b, vRole(1-role))
	vr.Assert("c07.agree.unprotect", err == nil)
	if err == nil {
		vr.Assert("c07.agree.usable", message.VEqPayloads(orig, r.Payloads))
	}
}
