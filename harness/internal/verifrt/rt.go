// Package verifrt is the nondeterminism / assertion API used by the verification harnesses.
//
// It exists only in the overlay (it is never written into /repo).  Under the symbolic executor
// (/verif/engine) every function below is intercepted: draws return fresh symbolic values,
// Assume/Assert become path-condition additions / solver obligations.  Compiled natively (replay),
// draws are read from the vector named by $VERIF_REPLAY, crypto helpers call the real primitives
// and a failed Assert fails the test.
package verifrt

import (
	"crypto/aes"
	"crypto/hmac"
	"crypto/md5"
	"crypto/rand"
	"crypto/sha1"
	"crypto/sha256"
	"encoding/hex"
	"encoding/json"
	"errors"
	"fmt"
	"hash"
	"io"
	"math/big"
	"os"
	"reflect"
	"runtime"
	"strconv"
	"strings"
	"sync"

	"sort"
)

type entry struct {
	Kind string `json:"kind"`
	Hex  string `json:"hex,omitempty"`
	Val  uint64 `json:"val,omitempty"`
	Cap  int    `json:"cap,omitempty"`
	N    int    `json:"n,omitempty"`
}

type vector struct {
	Params  []int    `json:"params"`
	SParams []string `json:"sparams"`
	Draws  []entry `json:"draws"`
}

var vec *vector

// state is the per-goroutine replay state (one per goroutine so that the race replay of C18 can run the
// same harness concurrently; an ordinary replay uses a single goroutine).
type state struct {
	pos        int
	Failures   []string
	Hits       map[string]int
	faultAt    int
	randCnt    int
	notes      []string
	randLog    [][]byte
	randAllLog [][]byte
	randIntLog [][]byte
	frameDumps []string
	frameRoots []any
}

var (
	stMu   sync.Mutex
	states = map[int64]*state{}
)

func goid() int64 {
	var buf [64]byte
	n := runtime.Stack(buf[:], false)
	f := strings.Fields(string(buf[:n]))
	id, _ := strconv.ParseInt(f[1], 10, 64)
	return id
}

func cur() *state {
	id := goid()
	stMu.Lock()
	defer stMu.Unlock()
	s := states[id]
	if s == nil {
		s = &state{Hits: map[string]int{}, faultAt: -1}
		states[id] = s
	}
	return s
}

// AssumeFailed is the panic value when a replay vector does not satisfy a harness assumption.
type AssumeFailed struct{}

func init() {
	p := os.Getenv("VERIF_REPLAY")
	if p == "" {
		return
	}
	b, err := os.ReadFile(p)
	if err != nil {
		panic(err)
	}
	vec = new(vector)
	if err := json.Unmarshal(b, vec); err != nil {
		panic(err)
	}
	rand.Reader = replayReader{}
}

func next(kind string) entry {
	if vec == nil {
		panic("verifrt: no replay vector (set VERIF_REPLAY)")
	}
	s := cur()
	for s.pos < len(vec.Draws) && (vec.Draws[s.pos].Kind == "cbcdec" || vec.Draws[s.pos].Kind == "mrand") {
		s.pos++ // model-only entries (values of the uninterpreted cipher), see ModelPlaintext
	}
	if s.pos >= len(vec.Draws) {
		panic(fmt.Sprintf("verifrt: replay vector exhausted at draw %d (%s)", s.pos, kind))
	}
	e := vec.Draws[s.pos]
	s.pos++
	if e.Kind != kind {
		panic(fmt.Sprintf("verifrt: replay desync at draw %d: vector has %s, harness asks %s", s.pos-1, e.Kind, kind))
	}
	return e
}

type replayReader struct{}

func (replayReader) Read(p []byte) (int, error) {
	s := cur()
	s.randCnt++
	if s.randCnt == s.faultAt {
		return 0, errors.New("verifrt: injected random source failure")
	}
	if s.pos < len(vec.Draws) && vec.Draws[s.pos].Kind == "randint" {
		// crypto/rand.Int: the value is delivered as big-endian octets of the requested width
		e := next("randint")
		h := e.Hex
		if len(h)%2 == 1 {
			h = "0" + h
		}
		b, _ := hex.DecodeString(h)
		for i := range p {
			p[i] = 0
		}
		if len(b) > len(p) {
			b = b[len(b)-len(p):]
		}
		copy(p[len(p)-len(b):], b)
		s.randIntLog = append(s.randIntLog, append([]byte{}, p...))
		s.randAllLog = append(s.randAllLog, append([]byte{}, p...))
		return len(p), nil
	}
	if s.pos < len(vec.Draws) && vec.Draws[s.pos].Kind == "randshort" {
		next("randshort") // the executor's choice between a full and a short read; the size follows
	}
	e := next("rand")
	b, _ := hex.DecodeString(e.Hex)
	if len(b) > len(p) {
		panic(fmt.Sprintf("verifrt: rand read of %d octets, vector has %d", len(p), len(b)))
	}
	// fewer octets than asked for: a short read, as io.Reader permits (direct Read calls only)
	copy(p, b)
	s.randLog = append(s.randLog, append([]byte{}, b...))
	s.randAllLog = append(s.randAllLog, append([]byte{}, b...))
	return len(b), nil
}

// RandAllLog returns every delivery of the random source so far, in order.
func RandAllLog() [][]byte { return cur().randAllLog }

// RandIntLog returns, as big-endian octet strings, the values crypto/rand.Int has returned so far.
func RandIntLog() [][]byte { return cur().randIntLog }

// RandLog returns the octets delivered by every successful read of the random source so far.
func RandLog() [][]byte { return cur().randLog }

// ModelPlaintext returns the octets the solver's model assigned to the i-th CBC decryption of the
// counterexample (values of the uninterpreted block decryption), or nil.  A native replay uses them to
// construct a ciphertext that really decrypts to those octets.
func ModelPlaintext(i int) []byte {
	if vec == nil {
		return nil
	}
	k := 0
	for _, e := range vec.Draws {
		if e.Kind == "cbcdec" {
			if k == i {
				b, _ := hex.DecodeString(e.Hex)
				return b
			}
			k++
		}
	}
	return nil
}

// dump renders everything reachable from v, unexported fields included, without addresses or
// capacities (reflection may read unexported fields, it only may not hand them out).
func dump(v reflect.Value, seen map[uintptr]bool, sb *strings.Builder) {
	if !v.IsValid() {
		sb.WriteString("<invalid>")
		return
	}
	switch v.Kind() {
	case reflect.Bool:
		fmt.Fprintf(sb, "%v", v.Bool())
	case reflect.Int, reflect.Int8, reflect.Int16, reflect.Int32, reflect.Int64:
		fmt.Fprintf(sb, "%d", v.Int())
	case reflect.Uint, reflect.Uint8, reflect.Uint16, reflect.Uint32, reflect.Uint64, reflect.Uintptr:
		fmt.Fprintf(sb, "%d", v.Uint())
	case reflect.String:
		fmt.Fprintf(sb, "%q", v.String())
	case reflect.Ptr:
		if v.IsNil() {
			sb.WriteString("nil")
			return
		}
		if seen[v.Pointer()] {
			sb.WriteString("<cycle>")
			return
		}
		seen[v.Pointer()] = true
		sb.WriteString("&")
		dump(v.Elem(), seen, sb)
		delete(seen, v.Pointer())
	case reflect.Interface:
		if v.IsNil() {
			sb.WriteString("nil")
			return
		}
		sb.WriteString(v.Elem().Type().String() + ":")
		dump(v.Elem(), seen, sb)
	case reflect.Struct:
		sb.WriteString(v.Type().String() + "{")
		// sync/atomic.Pointer[T] keeps its referent behind an unsafe.Pointer: follow it with T's type
		// (struct { _ [0]*T; _ noCopy; v unsafe.Pointer })
		if strings.HasPrefix(v.Type().String(), "atomic.Pointer[") && v.NumField() == 3 && v.Field(2).Kind() == reflect.UnsafePointer {
			if up := v.Field(2).UnsafePointer(); up == nil {
				sb.WriteString("nil}")
			} else {
				t := v.Type().Field(0).Type.Elem().Elem()
				dump(reflect.NewAt(t, up).Elem(), seen, sb)
				sb.WriteString("}")
			}
			return
		}
		for i := 0; i < v.NumField(); i++ {
			sb.WriteString(v.Type().Field(i).Name + ":")
			dump(v.Field(i), seen, sb)
			sb.WriteString(" ")
		}
		sb.WriteString("}")
	case reflect.Slice, reflect.Array:
		if v.Kind() == reflect.Slice && v.IsNil() {
			sb.WriteString("nil[]")
			return
		}
		sb.WriteString("[")
		for i := 0; i < v.Len(); i++ {
			dump(v.Index(i), seen, sb)
			sb.WriteString(" ")
		}
		sb.WriteString("]")
	case reflect.Map:
		if v.IsNil() {
			sb.WriteString("nilmap")
			return
		}
		var items []string
		it := v.MapRange()
		for it.Next() {
			var e strings.Builder
			dump(it.Key(), seen, &e)
			e.WriteString("=>")
			dump(it.Value(), seen, &e)
			items = append(items, e.String())
		}
		sort.Strings(items)
		sb.WriteString("map{" + strings.Join(items, ", ") + "}")
	case reflect.Chan:
		if v.IsNil() {
			sb.WriteString("nilchan")
		} else {
			sb.WriteString(fmt.Sprintf("chan(len=%d,cap=%d)", v.Len(), v.Cap()))
		}
	case reflect.Func:
		if v.IsNil() {
			sb.WriteString("nilfunc")
		} else {
			sb.WriteString("func")
		}
	default:
		sb.WriteString("<" + v.Kind().String() + ">")
	}
}

func sdump(x any) string {
	var sb strings.Builder
	dump(reflect.ValueOf(x), map[uintptr]bool{}, &sb)
	return sb.String()
}

// FrameBegin starts a frame condition on everything reachable from root: under the executor every
// later write to an object that is reachable from root now is recorded; natively a deep dump
// (unexported fields included) is taken.
func FrameBegin(root any) int {
	s := cur()
	s.frameDumps = append(s.frameDumps, sdump(root))
	s.frameRoots = append(s.frameRoots, root)
	return len(s.frameDumps) - 1
}

// FrameUnchanged reports whether nothing reachable from the root has been written since FrameBegin.
func FrameUnchanged(tok int) bool {
	s := cur()
	return sdump(s.frameRoots[tok]) == s.frameDumps[tok]
}

// Native reports whether the harness runs natively (replay) rather than under the executor.
func Native() bool { return true }

// Param returns the i-th job parameter (concrete under the executor as well).
func Param(i int) int {
	if vec == nil {
		panic("verifrt: no replay vector")
	}
	return vec.Params[i]
}

// SParam returns the i-th string parameter of the job (e.g. an oracle value computed by the runner).
func SParam(i int) string {
	if vec == nil {
		panic("verifrt: no replay vector")
	}
	return vec.SParams[i]
}

// ModExpBytes is the reference modular exponentiation base^exp mod m over big-endian octet strings,
// left-padded to n octets: the same (uninterpreted) function the executor substitutes for big.Int.Exp.
func ModExpBytes(base, exp, m []byte, n int) []byte {
	r := new(big.Int).Exp(new(big.Int).SetBytes(base), new(big.Int).SetBytes(exp), new(big.Int).SetBytes(m))
	out := make([]byte, n)
	b := r.Bytes()
	copy(out[n-len(b):], b)
	return out
}

func U8() uint8   { return uint8(next("u8").Val) }
func U16() uint16 { return uint16(next("u16").Val) }
func U32() uint32 { return uint32(next("u32").Val) }
func U64() uint64 { return next("u64").Val }
func Bool() bool  { return next("bool").Val != 0 }

// Bytes returns n fresh arbitrary octets.
func Bytes(n int) []byte {
	e := next("bytes")
	b, _ := hex.DecodeString(e.Hex)
	if len(b) != n {
		panic("verifrt: Bytes length mismatch")
	}
	if n == 0 {
		return []byte{}
	}
	return b
}

// Input returns an arbitrary input buffer of length n with arbitrary spare capacity (0..8 octets,
// arbitrary content) behind it.
func Input(n int) []byte {
	e := next("input")
	b, _ := hex.DecodeString(e.Hex)
	back := make([]byte, n+e.Cap)
	copy(back, b)
	return back[:n]
}

// IntIn returns an arbitrary integer in [lo, hi]; the executor explores every value.
func IntIn(lo, hi int) int {
	v := int(int64(next("int").Val))
	if v < lo || v > hi {
		panic("verifrt: IntIn out of range")
	}
	return v
}

// IntOf returns one of the listed values; the executor explores every one.
func IntOf(vals ...int) int {
	v := int(int64(next("int").Val))
	for _, x := range vals {
		if x == v {
			return v
		}
	}
	panic("verifrt: IntOf value not in list")
}

func Assume(c bool) {
	if !c {
		panic(AssumeFailed{})
	}
}

func Assert(label string, c bool) {
	s := cur()
	s.Hits[label]++
	if !c {
		s.Failures = append(s.Failures, label)
		fmt.Printf("VERIF-ASSERT-FAIL %s\n", label)
	}
}

func Cover(label string) { cur().Hits["cover:"+label]++ }

func Note(n string) { s := cur(); s.notes = append(s.notes, n) }

// All is a non-branching conjunction.
func All(c ...bool) bool {
	r := true
	for _, x := range c {
		r = r && x
	}
	return r
}

// Any is a non-branching disjunction.
func Any(c ...bool) bool {
	r := false
	for _, x := range c {
		r = r || x
	}
	return r
}

// Implies is a non-branching implication.
func Implies(a, b bool) bool { return !a || b }

// EqBytes compares contents; nil and empty are equal.
func EqBytes(a, b []byte) bool {
	if len(a) != len(b) {
		return false
	}
	for i := range a {
		if a[i] != b[i] {
			return false
		}
	}
	return true
}

// Havoc overwrites b and the spare capacity behind it with arbitrary octets.
func Havoc(b []byte) {
	e := next("bytes")
	v, _ := hex.DecodeString(e.Hex)
	full := b[:cap(b)]
	copy(full, v)
}

// Concrete forks the executor over the feasible values of x.
func Concrete(x int) int { return x }

// FaultAt makes the k-th read (1-based) of the system random source fail; 0 = never.
func FaultAt(k int) {
	s := cur()
	if k <= 0 {
		s.faultAt = -1
	} else {
		s.faultAt = k
	}
	s.randCnt = 0
}

// RandReads returns the number of reads of the random source so far.
func RandReads() int { return cur().randCnt }

func hashCtor(kind string) func() hash.Hash {
	switch kind {
	case "md5":
		return md5.New
	case "sha1":
		return sha1.New
	case "sha256":
		return sha256.New
	}
	panic("verifrt: unknown hash " + kind)
}

// HMAC is the reference keyed hash: the same (uninterpreted) function the executor substitutes for
// crypto/hmac with the given hash.
func HMAC(kind string, key, data []byte) []byte {
	h := hmac.New(hashCtor(kind), key)
	h.Write(data)
	return h.Sum(nil)
}

// AESEnc / AESDec: one raw block operation.
func AESEnc(key, block []byte) []byte {
	c, err := aes.NewCipher(key)
	if err != nil {
		panic(err)
	}
	out := make([]byte, 16)
	c.Encrypt(out, block)
	return out
}

func AESDec(key, block []byte) []byte {
	c, err := aes.NewCipher(key)
	if err != nil {
		panic(err)
	}
	out := make([]byte, 16)
	c.Decrypt(out, block)
	return out
}

// GuardCipher registers a condition that must be implied at every later cipher call (executor only).
func GuardCipher(label string, c bool) {}

// ClearGuards removes the conditions registered with GuardCipher (executor only).
func ClearGuards() {}

// CipherCalls reports how many block-mode operations have run (executor only; natively 0).
func CipherCalls() int { return 0 }

// MacCalls reports how many keyed-hash evaluations have run (executor only; natively 0).
func MacCalls() int { return 0 }

// Output records a value for engine validation (concrete mode): printed natively.
func Output(label string, b []byte) {
	fmt.Printf("VERIF-OUTPUT %s %x\n", label, b)
}

// SortSliceModel replaces sort.Slice under the executor (insertion sort over the real less closure).
func SortSliceModel(x any, less func(i, j int) bool) {
	n := LenAny(x)
	for i := 1; i < n; i++ {
		for j := i; j > 0 && less(j, j-1); j-- {
			SwapAny(x, j, j-1)
		}
	}
}

// PoolGetModel replaces (*sync.Pool).Get under the executor: the item put last, else New().
func PoolGetModel(p *sync.Pool) any {
	if v := PoolTake(p); v != nil {
		return v
	}
	if p.New != nil {
		return p.New()
	}
	return nil
}

// PoolTake is an executor intrinsic (natively the pool itself).
func PoolTake(p *sync.Pool) any { return p.Get() }

func LenAny(x any) int { return reflect.ValueOf(x).Len() }

func SwapAny(x any, i, j int) { reflect.Swapper(x)(i, j) }

// Done is called by replay tests after the harness returns.
func Done() (failures []string, hits map[string]int) { s := cur(); return s.Failures, s.Hits }

// Reset prepares for another harness run on this goroutine.
func Reset() {
	id := goid()
	stMu.Lock()
	delete(states, id)
	stMu.Unlock()
}

// SpyHash wraps a keyed hash and records what is written to it and what it returns (native replay of
// counterexamples that live in the model of an uninterpreted MAC).
type SpyHash struct {
	Inner   hash.Hash
	Written []byte
	Sums    [][]byte
	Inputs  [][]byte
}

func (s *SpyHash) Write(p []byte) (int, error) {
	s.Written = append(s.Written, p...)
	return s.Inner.Write(p)
}
func (s *SpyHash) Sum(b []byte) []byte {
	r := s.Inner.Sum(nil)
	s.Sums = append(s.Sums, r)
	s.Inputs = append(s.Inputs, append([]byte{}, s.Written...))
	return append(b, r...)
}
func (s *SpyHash) Reset()         { s.Written = nil; s.Inner.Reset() }
func (s *SpyHash) Size() int      { return s.Inner.Size() }
func (s *SpyHash) BlockSize() int { return s.Inner.BlockSize() }

var _ = io.EOF

// Models of byte searches (the executor runs these instead of the assembly-backed originals).
func BytesIndexModel(s, sep []byte) int {
	for i := 0; i+len(sep) <= len(s); i++ {
		match := true
		for j := range sep {
			if s[i+j] != sep[j] {
				match = false
				break
			}
		}
		if match {
			return i
		}
	}
	return -1
}

func BytesIndexByteModel(s []byte, c byte) int {
	for i := range s {
		if s[i] == c {
			return i
		}
	}
	return -1
}

func BytesContainsModel(s, sep []byte) bool { return BytesIndexModel(s, sep) >= 0 }

func BytesCountByteModel(s []byte, c byte) int {
	n := 0
	for i := range s {
		if s[i] == c {
			n++
		}
	}
	return n
}

func BytesCountModel(s, sep []byte) int {
	if len(sep) == 0 {
		return len(s) + 1
	}
	n := 0
	for i := 0; i+len(sep) <= len(s); {
		if BytesIndexModel(s[i:i+len(sep)], sep) == 0 {
			n++
			i += len(sep)
		} else {
			i++
		}
	}
	return n
}

// Registry of package-level variables a replay watches (filled by a generated init function in the
// variable's own package; see lib/runner.py).
var watched = map[string]any{}

func RegisterGlobal(name string, p any) { watched[name] = p }

// DumpGlobals renders the watched package-level variables (unexported fields included).
func DumpGlobals() string {
	var names []string
	for n := range watched {
		names = append(names, n)
	}
	sort.Strings(names)
	var sb strings.Builder
	for _, n := range names {
		sb.WriteString(n + "=")
		dump(reflect.ValueOf(watched[n]), map[uintptr]bool{}, &sb)
		sb.WriteString(";")
	}
	return sb.String()
}
