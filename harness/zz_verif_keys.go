package ike

import (
	vr "github.com/free5gc/ike/internal/verifrt"
	"github.com/free5gc/ike/message"
	"github.com/free5gc/ike/security"
	"github.com/free5gc/ike/security/encr"
	"github.com/free5gc/ike/security/integ"
)

// Suites: index = 3*encr + integ, encr in {AES-CBC-128,192,256}, integ in {MD5-96, SHA1-96, SHA2-256-128}.
var vEncrNames = []string{encr.ENCR_AES_CBC_128, encr.ENCR_AES_CBC_192, encr.ENCR_AES_CBC_256}
var vIntegNames = []string{integ.AUTH_HMAC_MD5_96, integ.AUTH_HMAC_SHA1_96, integ.AUTH_HMAC_SHA2_256_128}

// Independent tables (RFC 2403/2404/4868/3602), not read from the code under test.
var VIntegKeyLen = []int{16, 20, 32}
var VIntegOutLen = []int{12, 12, 16}
var VIntegHash = []string{"md5", "sha1", "sha256"}
var VEncrKeyLen = []int{16, 24, 32}

type VKeyMaterial struct {
	Suite                  int
	Ai, Ar, Ei, Er         []byte
}

// VGenKeyMaterial draws arbitrary key octets of the lengths the suite prescribes.
func VGenKeyMaterial(suite int) *VKeyMaterial {
	e, i := suite/3, suite%3
	return &VKeyMaterial{Suite: suite,
		Ai: vr.Bytes(VIntegKeyLen[i]), Ar: vr.Bytes(VIntegKeyLen[i]),
		Ei: vr.Bytes(VEncrKeyLen[e]), Er: vr.Bytes(VEncrKeyLen[e])}
}

// VNewKey builds an IKESAKey through the library's own constructors from the given key octets.
func VNewKey(km *VKeyMaterial) *security.IKESAKey {
	e, i := km.Suite/3, km.Suite%3
	k := new(security.IKESAKey)
	k.EncrInfo = encr.StrToType(vEncrNames[e])
	k.IntegInfo = integ.StrToType(vIntegNames[i])
	k.SK_ai = append([]byte{}, km.Ai...)
	k.SK_ar = append([]byte{}, km.Ar...)
	k.SK_ei = append([]byte{}, km.Ei...)
	k.SK_er = append([]byte{}, km.Er...)
	k.Integ_i = k.IntegInfo.Init(k.SK_ai)
	k.Integ_r = k.IntegInfo.Init(k.SK_ar)
	var err error
	k.Encr_i, err = k.EncrInfo.NewCrypto(k.SK_ei)
	vr.Assert("gen.key.encr_i", err == nil)
	k.Encr_r, err = k.EncrInfo.NewCrypto(k.SK_er)
	vr.Assert("gen.key.encr_r", err == nil)
	return k
}

func vRole(r int) message.Role {
	if r == 0 {
		return message.Role_Initiator
	}
	return message.Role_Responder
}
