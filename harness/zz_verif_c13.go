package ike

import (
	vr "github.com/free5gc/ike/internal/verifrt"
	"github.com/free5gc/ike/message"
)

// HSkipBeforeProtected (C13 at the message level, through DecodeDecrypt): unsupported payloads with a
// clear critical flag standing in front of the Encrypted payload of a genuine protected message are
// skipped like anywhere else in the chain - the datagram (with its checksum recomputed by the sender,
// here by the reference MAC, since the checksum covers the inserted octets) is unprotected to exactly
// the payloads of the message without them.
// Params: suite, sender role, hdrMode, number of inserted payloads (1..2), body length bound, kinds..., 0.
func HSkipBeforeProtected() {
	suite, role, hdrMode, cnt, L := vr.Param(0), vr.Param(1), vr.Param(2), vr.Param(3), vr.Param(4)
	km := VGenKeyMaterial(suite)
	sender, receiver := VNewKey(km), VNewKey(km)
	m := message.VGenMessage(5, -1)
	orig := message.VClonePayloads(m.Payloads)
	g, err := EncodeEncrypt(m, sender, vRole(role))
	vr.Assert("c13.sk.protect.noerr", err == nil)
	if err != nil {
		return
	}
	icv := VIntegOutLen[suite%3]
	// header | inserted... | SK payload (without checksum) | checksum
	next := uint8(message.TypeSK)
	var ins []byte
	for i := cnt - 1; i >= 0; i-- {
		t := vr.U8()
		vr.Assume(t >= 1 && (t <= 32 || t >= 49))
		n := vr.IntOf(0, 3, L) // body lengths: none, a few octets, the bound
		body := vr.Bytes(n)
		flags := vr.U8() & 0x7f
		one := append([]byte{next, flags, byte((n + 4) >> 8), byte(n + 4)}, body...)
		ins = append(one, ins...)
		next = t
	}
	b := append([]byte{}, g[:28]...)
	b[16] = next
	b = append(b, ins...)
	b = append(b, g[28:len(g)-icv]...)
	total := len(b) + icv
	b[24], b[25], b[26], b[27] = byte(total>>24), byte(total>>16), byte(total>>8), byte(total)
	_, ka := vSenderKeys(km, role)
	b = append(b, VSpecICV(suite, ka, b)...)
	var h *message.IKEHeader
	if hdrMode == 1 {
		var herr error
		h, herr = message.ParseHeader(b)
		vr.Assert("c13.sk.header.noerr", herr == nil)
		if herr != nil {
			return
		}
	}
	r, err := DecodeDecrypt(b, h, receiver, vRole(1-role))
	vr.Assert("c13.sk.skip.accepted", err == nil)
	if err != nil {
		return
	}
	vr.Assert("c13.sk.skip.equal", message.VEqPayloads(orig, r.Payloads))
}

// HSkipInsideProtected (C13 through DecodeDecrypt): unsupported payloads with a clear critical flag
// inside the encrypted chain of a peer's message - in front, in the middle, at the end, or alone - are
// skipped: the message unprotects to exactly the payloads of the message without them; with the
// critical flag set (Param(3) = 1) it is refused.
// Params: suite, sender role, hdrMode, critical (0/1), payload kinds..., 0.
func HSkipInsideProtected() {
	suite, role, hdrMode, crit := vr.Param(0), vr.Param(1), vr.Param(2), vr.Param(3)
	km := VGenKeyMaterial(suite)
	receiver := VNewKey(km)
	m := message.VGenMessage(4, -1)
	var items []message.VItem
	for _, p := range m.Payloads {
		body, err := message.VBodyOf(p)
		vr.Assert("c13.inner.base.marshal", err == nil)
		if err != nil {
			return
		}
		items = append(items, message.VItem{Type: message.VRefType(p), Flags: 0, Body: body})
	}
	pos := vr.IntIn(0, len(items))
	t := vr.U8()
	vr.Assume(t >= 1 && (t <= 32 || t >= 49))
	fl := vr.U8() & 0x7f
	if crit == 1 {
		fl |= 0x80
	}
	ins := message.VItem{Type: t, Flags: fl, Body: vr.Bytes(vr.IntOf(0, 3))}
	var all []message.VItem
	all = append(all, items[:pos]...)
	all = append(all, ins)
	all = append(all, items[pos:]...)
	whole := message.VAssemble(m.IKEHeader, all)
	first, chain := whole[16], whole[28:]
	p0 := (16 - (len(chain)+1)%16) % 16
	b := VRefProtectChain(m.IKEHeader, first, chain, km, role, p0)
	var h *message.IKEHeader
	if hdrMode == 1 {
		var err error
		h, err = message.ParseHeader(b)
		vr.Assert("c13.inner.header.noerr", err == nil)
		if err != nil {
			return
		}
	}
	r, err := DecodeDecrypt(b, h, receiver, vRole(1-role))
	if crit == 1 {
		vr.Assert("c13.inner.reject", err != nil)
		return
	}
	vr.Assert("c13.inner.skip.accepted", err == nil)
	if err != nil {
		return
	}
	vr.Assert("c13.inner.skip.equal", message.VEqPayloads(m.Payloads, r.Payloads))
}
