package ike

import (
	vr "github.com/free5gc/ike/internal/verifrt"
	"github.com/free5gc/ike/message"
	"github.com/free5gc/ike/security"
)

// HDecodeDecryptArbitrary (C04): DecodeDecrypt on an arbitrary buffer.
// Params: suite, receiver role, keyed (0/1), hdrMode (0 nil / 1 parsed from the same bytes), length,
// family (0 = arbitrary chain, 1 = the header announces an Encrypted payload that spans the whole
// datagram, the only shape a sender of protected messages produces; other first payloads are the
// business of the plain Decode harnesses).
func HDecodeDecryptArbitrary() {
	suite, role, keyed, hdrMode, n, family := vr.Param(0), vr.Param(1), vr.Param(2), vr.Param(3), vr.Param(4), vr.Param(5)
	var k *security.IKESAKey
	var km *VKeyMaterial
	if keyed == 1 {
		km = VGenKeyMaterial(suite)
		k = VNewKey(km)
	}
	b := vr.Input(n)
	if family == 1 {
		if n < 32 {
			return
		}
		vr.Assume(int(b[30])<<8|int(b[31]) == n-28)
		vr.Assume(b[16] == uint8(message.TypeSK))
	}
	if vr.Native() && keyed == 1 {
		// replay: the counterexample fixes what the uninterpreted MAC and block decryption return; build the
		// datagram that really carries a valid checksum and really decrypts to the model's plaintext
		icv := VIntegOutLen[suite%3]
		if p := vr.ModelPlaintext(0); p != nil && n >= 48+16+icv && len(p) == n-48-icv {
			ke, ka := vSenderKeys(km, 1-role)
			f := append([]byte{}, b[:48]...)
			f = append(f, vSpecCBCEncrypt(ke, b[32:48], p)...)
			f = append(f, VSpecICV(suite, ka, f)...)
			b = f
		}
	}
	var h *message.IKEHeader
	if hdrMode == 1 {
		var err error
		h, err = message.ParseHeader(b)
		if err != nil {
			vr.Cover("c04.dd.header-rejected")
			return
		}
	}
	before := append([]byte{}, b...)
	m, err := DecodeDecrypt(b, h, k, vRole(role))
	vr.Assert("c04.input-unchanged", vr.EqBytes(b, before))
	if err == nil {
		vr.Assert("c04.dd.nonnil", m != nil)
		vr.Cover("c04.dd.accepted")
	} else {
		vr.Cover("c04.dd.rejected")
	}
}
