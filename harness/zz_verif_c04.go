package ike

import (
	vr "github.com/free5gc/ike/internal/verifrt"
	"github.com/free5gc/ike/message"
	"github.com/free5gc/ike/security"
)

// HDecodeDecryptArbitrary (C04): DecodeDecrypt on an arbitrary buffer.
// Params: suite, receiver role, keyed (0/1), hdrMode (0 nil / 1 parsed from the same bytes), length,
// family (0 = arbitrary chain, 1 = the header announces an Encrypted payload that spans the whole
// datagram, the only shape a sender of protected messages produces; other first payloads are the
// business of the plain Decode harnesses).
func HDecodeDecryptArbitrary() {
	suite, role, keyed, hdrMode, n, family := vr.Param(0), vr.Param(1), vr.Param(2), vr.Param(3), vr.Param(4), vr.Param(5)
	var k *security.IKESAKey
	if keyed == 1 {
		k = VNewKey(VGenKeyMaterial(suite))
	}
	b := vr.Input(n)
	if family == 1 {
		if n < 32 {
			return
		}
		vr.Assume(int(b[30])<<8|int(b[31]) == n-28)
		vr.Assume(b[16] == uint8(message.TypeSK))
	}
	var h *message.IKEHeader
	if hdrMode == 1 {
		var err error
		h, err = message.ParseHeader(b)
		if err != nil {
			vr.Cover("c04.dd.header-rejected")
			return
		}
	}
	m, err := DecodeDecrypt(b, h, k, vRole(role))
	if err == nil {
		vr.Assert("c04.dd.nonnil", m != nil)
		vr.Cover("c04.dd.accepted")
	} else {
		vr.Cover("c04.dd.rejected")
	}
}
