package ike

import (
	vr "github.com/free5gc/ike/internal/verifrt"
	"github.com/free5gc/ike/message"
	"github.com/free5gc/ike/security"
)

// vFrontSkipped constrains an arbitrary datagram of n octets to the shape: header naming an unsupported
// payload type | that payload (l1 octets, critical flag clear, next = Encrypted) | an Encrypted payload
// spanning the rest.  Returns the offset of the Encrypted payload (-1: no room).
func vFrontSkipped(b []byte, n, l1 int) int {
	if l1 < 4 || n < 28+l1+4 {
		return -1
	}
	t := b[16]
	vr.Assume(t >= 1 && (t <= 32 || t >= 49))
	vr.Assume(b[28] == uint8(message.TypeSK) && b[29]&0x80 == 0)
	vr.Assume(int(b[30])<<8|int(b[31]) == l1)
	o := 28 + l1
	vr.Assume(int(b[o+2])<<8|int(b[o+3]) == n-o)
	return o
}

// HDecodeDecryptArbitrary (C04): DecodeDecrypt on an arbitrary buffer.
// Params: suite, receiver role, keyed (0/1), hdrMode (0 nil / 1 parsed from the same bytes), length,
// family (0 = arbitrary chain, 1 = the header announces an Encrypted payload that spans the whole
// datagram, the only shape a sender of protected messages produces; other first payloads are the
// business of the plain Decode harnesses; 2 = an unsupported non-critical payload of Param(6) octets in
// front of an Encrypted payload that spans the rest).
func HDecodeDecryptArbitrary() {
	suite, role, keyed, hdrMode, n, family := vr.Param(0), vr.Param(1), vr.Param(2), vr.Param(3), vr.Param(4), vr.Param(5)
	var k *security.IKESAKey
	var km *VKeyMaterial
	if keyed == 1 {
		km = VGenKeyMaterial(suite)
		k = VNewKey(km)
	}
	b := vr.Input(n)
	skOff := 28
	if family == 1 {
		if n < 32 {
			return
		}
		vr.Assume(int(b[30])<<8|int(b[31]) == n-28)
		vr.Assume(b[16] == uint8(message.TypeSK))
	}
	if family == 2 {
		skOff = vFrontSkipped(b, n, vr.Param(6))
		if skOff < 0 {
			return
		}
	}
	if vr.Native() && keyed == 1 {
		// replay: the counterexample fixes what the uninterpreted MAC and block decryption return; build the
		// datagram that really carries a valid checksum and really decrypts to the model's plaintext
		icv := VIntegOutLen[suite%3]
		if p := vr.ModelPlaintext(0); p != nil && n >= skOff+20+16+icv && len(p) == n-skOff-20-icv {
			ke, ka := vSenderKeys(km, 1-role)
			f := append([]byte{}, b[:skOff+20]...)
			f = append(f, vSpecCBCEncrypt(ke, b[skOff+4:skOff+20], p)...)
			f = append(f, VSpecICV(suite, ka, f)...)
			b = f
		}
	}
	var h *message.IKEHeader
	if hdrMode == 1 {
		var err error
		h, err = message.ParseHeader(b)
		if err != nil {
			vr.Cover("c04.dd.header-rejected")
			return
		}
	}
	before := append([]byte{}, b...)
	m, err := DecodeDecrypt(b, h, k, vRole(role))
	vr.Assert("c04.input-unchanged", vr.EqBytes(b, before))
	if err == nil {
		vr.Assert("c04.dd.nonnil", m != nil)
		vr.Cover("c04.dd.accepted")
	} else {
		vr.Cover("c04.dd.rejected")
	}
}
