package ike

import (
	"hash"

	vr "github.com/free5gc/ike/internal/verifrt"
	"github.com/free5gc/ike/message"
	"github.com/free5gc/ike/security"
	"github.com/free5gc/ike/security/encr"
)

// vUsedKey builds an SA key object in an arbitrary reachable state: every keyed-hash object has junk
// octets already written to it (exactly what an earlier, possibly aborted or rejecting, operation can
// leave behind - the buffer of an HMAC object is its only state), the cipher objects satisfy the
// representation invariant (keyed block, no cached IV, no cached padding).
func vUsedKey(km *VKeyMaterial, junk int) *security.IKESAKey {
	if junk > 0 {
		return vUsedKeyFrom(km, vr.Bytes(junk), vr.Bytes(junk))
	}
	return VNewKey(km)
}

func vUsedKeyFrom(km *VKeyMaterial, junkI, junkR []byte) *security.IKESAKey {
	k := VNewKey(km)
	if len(junkI) > 0 {
		k.Integ_i.Write(junkI)
		k.Integ_r.Write(junkR)
	}
	return k
}

// vNativeForgeUsed is the native confirmation of a counterexample in which a *used* object accepts a
// forged datagram because of what its keyed-hash objects still hold: every checksum the code under test
// reads from those objects while handling the datagram is written into the datagram's ICV field, and
// the datagram is presented to an object in the same state; it must be rejected unless the ICV is the
// HMAC of everything before it.
func vNativeForgeUsed(km *VKeyMaterial, junkI, junkR []byte, role int, b []byte) {
	icv := VIntegOutLen[km.Suite%3]
	spied := vUsedKeyFrom(km, junkI, junkR)
	si, sr := &vr.SpyHash{Inner: spied.Integ_i}, &vr.SpyHash{Inner: spied.Integ_r}
	var hi, hr hash.Hash = si, sr
	spied.Integ_i, spied.Integ_r = hi, hr
	_, _ = DecodeDecrypt(b, nil, spied, vRole(role))
	for _, sum := range append(si.Sums, sr.Sums...) {
		if len(sum) < icv || len(b) < icv {
			continue
		}
		x := append([]byte{}, b...)
		copy(x[len(x)-icv:], sum[:icv])
		if vValid(km, role, x) {
			continue
		}
		again, decs := vUsedKeyFrom(km, junkI, junkR), 0
		again.Encr_i = &vSpyCrypto{inner: again.Encr_i, dec: &decs}
		again.Encr_r = &vSpyCrypto{inner: again.Encr_r, dec: &decs}
		_, err := DecodeDecrypt(x, nil, again, vRole(role))
		vr.Assert("c17.cipher-after-mac", decs == 0)
		vr.Assert("c17.forged-rejected", err != nil)
	}
}

func vInvariant(k *security.IKESAKey) bool {
	ci, oki := k.Encr_i.(*encr.EncrAesCbcCrypto)
	cr, okr := k.Encr_r.(*encr.EncrAesCbcCrypto)
	if !oki || !okr {
		return false
	}
	return ci.Iv == nil && ci.Padding == nil && cr.Iv == nil && cr.Padding == nil &&
		k.Integ_i != nil && k.Integ_r != nil && ci.Block != nil && cr.Block != nil
}

// HReuseStep (C17): inductive step.  One operation on an SA key object in an arbitrary reachable state
// behaves as on a freshly built object holding the same keys, and leaves the object in a state that
// again satisfies the invariant (so sequences of any length are covered).
// Params: suite, op, role, junk length, payload kinds..., 0.
//   op 0: protect on the used object, a fresh peer unprotects
//   op 1: a fresh peer protects, the used object unprotects
//   op 2: the used object protects and then unprotects its own peer's reply (two operations in a row)
func HReuseStep() {
	suite, op, role, junk := vr.Param(0), vr.Param(1), vr.Param(2), vr.Param(3)
	km := VGenKeyMaterial(suite)
	used := vUsedKey(km, junk)
	fresh := VNewKey(km)
	vr.Assert("c17.invariant.pre", vInvariant(used))
	m := message.VGenMessage(4, -1)
	orig := message.VClonePayloads(m.Payloads)
	var sender, receiver *security.IKESAKey
	switch op {
	case 0, 2:
		sender, receiver = used, fresh
	default:
		sender, receiver = fresh, used
	}
	b, err := EncodeEncrypt(m, sender, vRole(role))
	vr.Assert("c17.protect.noerr", err == nil)
	if err != nil {
		return
	}
	r, err := DecodeDecrypt(b, nil, receiver, vRole(1-role))
	vr.Assert("c17.same-result.accepted", err == nil)
	if err != nil {
		return
	}
	vr.Assert("c17.same-result", message.VEqPayloads(orig, r.Payloads))
	vr.Assert("c17.invariant", vInvariant(used))
	if op == 2 {
		// the peer answers; the used object (which has just protected a message) unprotects the answer
		m2 := message.VGenMessage(4, -1)
		orig2 := message.VClonePayloads(m2.Payloads)
		b2, err := EncodeEncrypt(m2, fresh, vRole(1-role))
		vr.Assert("c17.protect2.noerr", err == nil)
		if err != nil {
			return
		}
		r2, err := DecodeDecrypt(b2, nil, used, vRole(role))
		vr.Assert("c17.same-result.accepted-2", err == nil)
		if err == nil {
			vr.Assert("c17.same-result-2", message.VEqPayloads(orig2, r2.Payloads))
		}
		vr.Assert("c17.invariant-2", vInvariant(used))
	}
}

// HReuseReject (C17): a used object still rejects forged / malformed datagrams: for an arbitrary
// datagram with an invalid ICV the SK branch never accepts and the cipher is never reached, from any
// state of the keyed-hash objects; afterwards the object satisfies the invariant and still accepts a
// genuine message.  Params: suite, receiver role, junk length, datagram length.
func HReuseReject() {
	suite, role, junk, n := vr.Param(0), vr.Param(1), vr.Param(2), vr.Param(3)
	km := VGenKeyMaterial(suite)
	var junkI, junkR []byte
	if junk > 0 {
		junkI, junkR = vr.Bytes(junk), vr.Bytes(junk)
	}
	used := vUsedKeyFrom(km, junkI, junkR)
	if n < 32 {
		return // no room for an Encrypted payload: such datagrams are plain ones (C04 / C02-O4)
	}
	b := vr.Input(n)
	vr.Assume(int(b[30])<<8|int(b[31]) == n-28)
	vr.Assume(b[16] == uint8(message.TypeSK))
	if vr.Native() {
		vNativeForgeUsed(km, junkI, junkR, role, b)
	}
	valid := vValid(km, role, b)
	vr.Assume(!valid)
	vr.GuardCipher("c17.cipher-after-mac", valid)
	_, err := DecodeDecrypt(b, nil, used, vRole(role))
	vr.Assert("c17.forged-rejected", err != nil)
	vr.ClearGuards()
	vr.Assert("c17.invariant.after-reject", vInvariant(used))
	// the rejection left no trace that matters: a genuine message from a fresh peer is accepted
	fresh := VNewKey(km)
	m := message.VGenMessage(4, -1)
	orig := message.VClonePayloads(m.Payloads)
	g, err := EncodeEncrypt(m, fresh, vRole(1-role))
	vr.Assert("c17.protect.noerr", err == nil)
	if err != nil {
		return
	}
	r, err := DecodeDecrypt(g, nil, used, vRole(role))
	vr.Assert("c17.accept-after-reject", err == nil)
	if err == nil {
		vr.Assert("c17.accept-after-reject.equal", message.VEqPayloads(orig, r.Payloads))
	}
}

// HReuseSequence (C17): a concrete long history on one SA key object - Param(2) operations, two protects
// (each unprotected by a newly built peer holding the same keys) then one unprotect of such a peer's
// message, repeated - every one of which must behave as on a fresh object.  The messages are small (an
// empty list: a full block of padding each; or one Nonce).  Complements the inductive step, whose
// invariant only speaks about the state the clean objects have.  Params: suite, role, length, payload kinds..., 0.
func HReuseSequence() {
	suite, role, n := vr.Param(0), vr.Param(1), vr.Param(2)
	km := VGenKeyMaterial(suite)
	used := VNewKey(km)
	m0 := message.VGenMessage(3, -1)
	for i := 0; i < n; i++ {
		m := &message.IKEMessage{IKEHeader: m0.IKEHeader, Payloads: message.VClonePayloads(m0.Payloads)}
		peer := VNewKey(km)
		sender, receiver, r := used, peer, role
		if i%3 == 2 {
			sender, receiver, r = peer, used, 1-role
		}
		b, err := EncodeEncrypt(m, sender, vRole(r))
		vr.Assert("c17.sequence.protect.noerr", err == nil)
		if err != nil {
			return
		}
		d, err := DecodeDecrypt(b, nil, receiver, vRole(1-r))
		vr.Assert("c17.sequence.accepted", err == nil)
		if err != nil {
			return
		}
		vr.Assert("c17.sequence.equal", message.VEqPayloads(m0.Payloads, d.Payloads))
	}
	vr.Assert("c17.sequence.invariant", vInvariant(used))
}
