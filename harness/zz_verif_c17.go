package ike

import (
	"hash"

	vr "github.com/free5gc/ike/internal/verifrt"
	"github.com/free5gc/ike/message"
	"github.com/free5gc/ike/security"
	"github.com/free5gc/ike/security/encr"
)

// vUsedKey builds an SA key object in an arbitrary reachable state: every keyed-hash object has junk
// octets already written to it (exactly what an earlier, possibly aborted or rejecting, operation can
// leave behind - the buffer of an HMAC object is its only state), the cipher objects satisfy the
// representation invariant (keyed block, no cached IV, no cached padding).
func vUsedKey(km *VKeyMaterial, junk int) *security.IKESAKey {
	k := VNewKey(km)
	if junk > 0 {
		for _, h := range []hash.Hash{k.Integ_i, k.Integ_r} {
			h.Write(vr.Bytes(junk))
		}
	}
	return k
}

func vInvariant(k *security.IKESAKey) bool {
	ci, oki := k.Encr_i.(*encr.EncrAesCbcCrypto)
	cr, okr := k.Encr_r.(*encr.EncrAesCbcCrypto)
	if !oki || !okr {
		return false
	}
	return ci.Iv == nil && ci.Padding == nil && cr.Iv == nil && cr.Padding == nil &&
		k.Integ_i != nil && k.Integ_r != nil && ci.Block != nil && cr.Block != nil
}

// HReuseStep (C17): inductive step.  One operation on an SA key object in an arbitrary reachable state
// behaves as on a freshly built object holding the same keys, and leaves the object in a state that
// again satisfies the invariant (so sequences of any length are covered).
// Params: suite, op, role, junk length, payload kinds..., 0.
//   op 0: protect on the used object, a fresh peer unprotects
//   op 1: a fresh peer protects, the used object unprotects
//   op 2: the used object protects and then unprotects its own peer's reply (two operations in a row)
func HReuseStep() {
	suite, op, role, junk := vr.Param(0), vr.Param(1), vr.Param(2), vr.Param(3)
	km := VGenKeyMaterial(suite)
	used := vUsedKey(km, junk)
	fresh := VNewKey(km)
	vr.Assert("c17.invariant.pre", vInvariant(used))
	m := message.VGenMessage(4, -1)
	orig := message.VClonePayloads(m.Payloads)
	var sender, receiver *security.IKESAKey
	switch op {
	case 0, 2:
		sender, receiver = used, fresh
	default:
		sender, receiver = fresh, used
	}
	b, err := EncodeEncrypt(m, sender, vRole(role))
	vr.Assert("c17.protect.noerr", err == nil)
	if err != nil {
		return
	}
	r, err := DecodeDecrypt(b, nil, receiver, vRole(1-role))
	vr.Assert("c17.same-result.accepted", err == nil)
	if err != nil {
		return
	}
	vr.Assert("c17.same-result", message.VEqPayloads(orig, r.Payloads))
	vr.Assert("c17.invariant", vInvariant(used))
	if op == 2 {
		// the peer answers; the used object (which has just protected a message) unprotects the answer
		m2 := message.VGenMessage(4, -1)
		orig2 := message.VClonePayloads(m2.Payloads)
		b2, err := EncodeEncrypt(m2, fresh, vRole(1-role))
		vr.Assert("c17.protect2.noerr", err == nil)
		if err != nil {
			return
		}
		r2, err := DecodeDecrypt(b2, nil, used, vRole(role))
		vr.Assert("c17.same-result.accepted-2", err == nil)
		if err == nil {
			vr.Assert("c17.same-result-2", message.VEqPayloads(orig2, r2.Payloads))
		}
		vr.Assert("c17.invariant-2", vInvariant(used))
	}
}

// HReuseReject (C17): a used object still rejects forged / malformed datagrams: for an arbitrary
// datagram with an invalid ICV the SK branch never accepts and the cipher is never reached, from any
// state of the keyed-hash objects; afterwards the object satisfies the invariant and still accepts a
// genuine message.  Params: suite, receiver role, junk length, datagram length.
func HReuseReject() {
	suite, role, junk, n := vr.Param(0), vr.Param(1), vr.Param(2), vr.Param(3)
	km := VGenKeyMaterial(suite)
	used := vUsedKey(km, junk)
	if n < 32 {
		return // no room for an Encrypted payload: such datagrams are plain ones (C04 / C02-O4)
	}
	b := vr.Input(n)
	vr.Assume(int(b[30])<<8|int(b[31]) == n-28)
	vr.Assume(b[16] == uint8(message.TypeSK))
	valid := vValid(km, role, b)
	vr.Assume(!valid)
	vr.GuardCipher("c17.cipher-after-mac", valid)
	_, err := DecodeDecrypt(b, nil, used, vRole(role))
	vr.Assert("c17.forged-rejected", err != nil)
	vr.ClearGuards()
	vr.Assert("c17.invariant.after-reject", vInvariant(used))
	// the rejection left no trace that matters: a genuine message from a fresh peer is accepted
	fresh := VNewKey(km)
	m := message.VGenMessage(4, -1)
	orig := message.VClonePayloads(m.Payloads)
	g, err := EncodeEncrypt(m, fresh, vRole(1-role))
	vr.Assert("c17.protect.noerr", err == nil)
	if err != nil {
		return
	}
	r, err := DecodeDecrypt(g, nil, used, vRole(role))
	vr.Assert("c17.accept-after-reject", err == nil)
	if err == nil {
		vr.Assert("c17.accept-after-reject.equal", message.VEqPayloads(orig, r.Payloads))
	}
}
