package ike

import (
	vr "github.com/free5gc/ike/internal/verifrt"
	"github.com/free5gc/ike/message"
)

// Direction-specific keys by sender role (independent table, RFC 7296 2.14 / 3.14): a message sent
// by the initiator is encrypted under SK_ei and authenticated under SK_ai, by the responder under
// SK_er / SK_ar.
func vSenderKeys(km *VKeyMaterial, senderRole int) (ke, ka []byte) {
	if senderRole == 0 {
		return km.Ei, km.Ai
	}
	return km.Er, km.Ar
}

func vSpecCBCDecrypt(key, iv, ct []byte) []byte {
	var out []byte
	prev := iv
	for i := 0; i+16 <= len(ct); i += 16 {
		blk := ct[i : i+16]
		d := vr.AESDec(key, blk)
		for j := 0; j < 16; j++ {
			out = append(out, d[j]^prev[j])
		}
		prev = blk
	}
	return out
}

func vSpecCBCEncrypt(key, iv, pt []byte) []byte {
	var out []byte
	prev := iv
	for i := 0; i+16 <= len(pt); i += 16 {
		x := make([]byte, 16)
		for j := 0; j < 16; j++ {
			x[j] = pt[i+j] ^ prev[j]
		}
		c := vr.AESEnc(key, x)
		out = append(out, c...)
		prev = c
	}
	return out
}

// VSpecICV: truncated HMAC under ka over data (hash and output length from the independent table).
func VSpecICV(suite int, ka, data []byte) []byte {
	i := suite % 3
	return vr.HMAC(VIntegHash[i], ka, data)[:VIntegOutLen[i]]
}

// HSKLayout (C06 a): the protected message follows RFC 7296 3.14 and an independent implementation
// holding the keys verifies, decrypts and parses it to the original payloads.
// Params: suite, sender role, tier, payload kinds..., 0.
func HSKLayout() {
	suite, role, tier := vr.Param(0), vr.Param(1), vr.Param(2)
	km := VGenKeyMaterial(suite)
	// the SA key object may have been used before: its keyed-hash objects hold arbitrary octets
	k := vUsedKey(km, 1+suite%3)
	m := message.VGenMessage(3, tier)
	orig := message.VClonePayloads(m.Payloads)
	hdr := *m.IKEHeader
	b, err := EncodeEncrypt(m, k, vRole(role))
	vr.Assert("c06.protect.noerr", err == nil)
	if err != nil {
		return
	}
	icv := VIntegOutLen[suite%3]
	n := len(b)
	vr.Assert("c06.minlen", n >= 28+4+16+16+icv)
	if n < 28+4+16+16+icv {
		return
	}
	// cleartext header
	h, ok := message.VRefParseHeaderOnly(b)
	vr.Assert("c06.header", ok && message.VEqHeader(&hdr, h))
	vr.Assert("c06.header.next-is-sk", b[16] == 46)
	vr.Assert("c06.header.length", int(b[24])<<24|int(b[25])<<16|int(b[26])<<8|int(b[27]) == n)
	// SK generic header: next payload names the first inner payload, no flags, final length
	first := uint8(0)
	if len(orig) > 0 {
		first = uint8(orig[0].Type())
	}
	vr.Assert("c06.skhdr.next", b[28] == first)
	vr.Assert("c06.skhdr.flags", b[29] == 0)
	vr.Assert("c06.skhdr.length", int(b[30])<<8|int(b[31]) == n-28)
	// IV || ciphertext || ICV
	iv, ct, tag := b[32:48], b[48:n-icv], b[n-icv:]
	vr.Assert("c06.ct.blocks", len(ct) > 0 && len(ct)%16 == 0)
	ke, ka := vSenderKeys(km, role)
	vr.Assert("c06.icv", vr.EqBytes(tag, VSpecICV(suite, ka, b[:n-icv])))
	p := vSpecCBCDecrypt(ke, iv, ct)
	padlen := int(p[len(p)-1])
	pl := vr.Concrete(padlen)
	vr.Assert("c06.pad", pl+1 <= len(p))
	if pl+1 > len(p) {
		return
	}
	inner, ok := message.VRefParseChain(b[28], p[:len(p)-1-pl])
	vr.Assert("c06.inner.parse", ok)
	if ok {
		vr.Assert("c06.inner.equal", message.VEqPayloads(orig, inner))
	}
}

// VRefProtect builds a protected message with the independent implementation: reference chain
// encoding, arbitrary IV, pad octets and (legal) pad length, textbook CBC, truncated HMAC.
func VRefProtect(m *message.IKEMessage, km *VKeyMaterial, senderRole int, padlen int) []byte {
	first, chain := message.VRefEncodeChain(m.Payloads, false, 0)
	return VRefProtectChain(m.IKEHeader, first, chain, km, senderRole, padlen)
}

// VRefProtectChain: the same for an inner chain given as octets (first = type of its first payload).
func VRefProtectChain(hdr *message.IKEHeader, first uint8, chain []byte, km *VKeyMaterial, senderRole int, padlen int) []byte {
	plain := append([]byte{}, chain...)
	plain = append(plain, vr.Bytes(padlen)...)
	plain = append(plain, uint8(padlen))
	ke, ka := vSenderKeys(km, senderRole)
	iv := vr.Bytes(16)
	ct := vSpecCBCEncrypt(ke, iv, plain)
	icv := VIntegOutLen[km.Suite%3]
	body := append(append([]byte{}, iv...), ct...)
	item := message.VItem{Type: 46, Flags: 0, Body: append(body, make([]byte, icv)...)}
	b := message.VAssembleFirst(hdr, item, first)
	tag := VSpecICV(km.Suite, ka, b[:len(b)-icv])
	copy(b[len(b)-icv:], tag)
	return b
}

// HAcceptReference (C06 b): messages produced by the independent implementation, with any legal
// padding, are accepted and decoded correctly.  Params: suite, sender role, hdrMode, tier, kinds..., 0.
func HAcceptReference() {
	suite, role, hdrMode, tier := vr.Param(0), vr.Param(1), vr.Param(2), vr.Param(3)
	km := VGenKeyMaterial(suite)
	kR := vUsedKey(km, 1+suite%3)
	m := message.VGenMessage(4, tier)
	_, chain := message.VRefEncodeChain(m.Payloads, false, 0)
	// all pad lengths p <= 255 with len(chain)+p+1 a multiple of 16
	p0 := (16 - (len(chain)+1)%16) % 16
	padlen := p0 + 16*vr.IntIn(0, (255-p0)/16)
	b := VRefProtect(m, km, role, padlen)
	var h *message.IKEHeader
	if hdrMode == 1 {
		var err error
		h, err = message.ParseHeader(b)
		vr.Assert("c06.accept.parseheader", err == nil)
		if err != nil {
			return
		}
	}
	r, err := DecodeDecrypt(b, h, kR, vRole(1-role))
	vr.Assert("c06.accept.noerr", err == nil)
	if err != nil {
		return
	}
	vr.Assert("c06.accept.header", message.VEqHeader(m.IKEHeader, r.IKEHeader))
	vr.Assert("c06.accept.equal", message.VEqPayloads(m.Payloads, r.Payloads))
}
