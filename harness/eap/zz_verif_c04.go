package eap

import (
	vr "github.com/free5gc/ike/internal/verifrt"
)

// HDecodeEap (C04): EAP packet decoder on an arbitrary buffer of length Param(0).
func HDecodeEap() {
	b := vr.Input(vr.Param(0))
	e := new(EAP)
	before := append([]byte{}, b...)
	err := e.Unmarshal(b)
	vr.Assert("c04.input-unchanged", vr.EqBytes(b, before))
	if err == nil {
		vr.Cover("c04.eap.accepted")
	} else {
		vr.Cover("c04.eap.rejected")
	}
}

// HDecodeEapMethod (C04): each EAP method body decoder (Param(0): 1 identity, 2 notification, 3 nak,
// 50 AKA', 254 expanded) on an arbitrary buffer of length Param(1).
func HDecodeEapMethod() {
	var d EapTypeData
	switch vr.Param(0) {
	case 1:
		d = new(EapIdentity)
	case 2:
		d = new(EapNotification)
	case 3:
		d = new(EapNak)
	case 50:
		d = new(EapAkaPrime)
	case 254:
		d = new(EapExpanded)
	}
	b := vr.Input(vr.Param(1))
	if err := d.Unmarshal(b); err == nil {
		vr.Cover("c04.eapmethod.accepted")
	} else {
		vr.Cover("c04.eapmethod.rejected")
	}
}
