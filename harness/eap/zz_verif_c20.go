package eap

import (
	vr "github.com/free5gc/ike/internal/verifrt"
)

// HEapEncodePureAnyCode (C20): whatever the library can encode it encodes without altering it - here EAP
// packets whose code octet is arbitrary (the decoder accepts type data behind any code, and a caller can
// build such a packet), for every type-data kind.  Params: method (1, 2, 3, 254, 50), AKA' attribute mask.
func HEapEncodePureAnyCode() {
	e := VGenEAP(vr.Param(0), vr.Param(1), -1)
	e.Code = EapCode(vr.U8())
	data := e.EapTypeData
	tok := vr.FrameBegin(e)
	b1, err := e.Marshal()
	if err != nil {
		vr.Cover("c20.eap.anycode.refused")
		return
	}
	vr.Assert("c20.eap.anycode.not-written", vr.FrameUnchanged(tok))
	vr.Assert("c20.eap.anycode.same-data", e.EapTypeData == data)
	b2, err := e.Marshal()
	vr.Assert("c20.eap.anycode.again.noerr", err == nil)
	if err == nil {
		vr.Assert("c20.eap.anycode.deterministic", vr.EqBytes(b1, b2))
	}
}

// HEapDecodeOwnsData (C20): a decoded EAP packet shares no memory with the buffer it was decoded from -
// for every EAP-AKA' attribute (Param(1) is the attribute mask; method Param(0)).
func HEapDecodeOwnsData() {
	e := VGenEAP(vr.Param(0), vr.Param(1), 0)
	enc, err := e.Marshal()
	vr.Assert("c20.eap.encode.noerr", err == nil)
	if err != nil {
		return
	}
	buf := make([]byte, len(enc), len(enc)+8)
	copy(buf, enc)
	d := new(EAP)
	err = d.Unmarshal(buf)
	vr.Assert("c20.eap.decode.noerr", err == nil)
	if err != nil {
		return
	}
	vr.Assert("c20.eap.value", VEqEAP(e, d))
	vr.Havoc(buf)
	vr.Assert("c20.eap.noalias", VEqEAP(e, d))
}
