package eap

import (
	vr "github.com/free5gc/ike/internal/verifrt"
)

// HPrfPrime (C16): EapAkaPrimePRF against an independent PRF' (RFC 5448 3.4.1 / RFC 9048):
// MK = PRF'(IK'|CK', "EAP-AKA'"|identity), T1 = HMAC-SHA-256(K, S|0x01), Tn = HMAC-SHA-256(K, Tn-1|S|n).
// Params: |IK'|, |CK'|, |identity|.
func HPrfPrime() {
	lik, lck, lid := vr.Param(0), vr.Param(1), vr.Param(2)
	ik, ck, id := vr.Bytes(lik), vr.Bytes(lck), vr.Bytes(lid)
	gik, gck := VGuarded(ik), VGuarded(ck)
	kenc, kaut, kre, msk, emsk, err := EapAkaPrimePRF(gik[:lik], gck[:lck], string(id))
	vr.Assert("c16.arguments-untouched", vr.All(VGuardIntact(gik, ik), VGuardIntact(gck, ck)))
	vr.Assert("c16.noerr", err == nil)
	if err != nil {
		return
	}
	key := append(append([]byte{}, ik...), ck...)
	s := append([]byte("EAP-AKA'"), id...)
	var mk, prev []byte
	for i := 1; len(mk) < 208; i++ {
		msg := append(append(append([]byte{}, prev...), s...), byte(i))
		prev = vr.HMAC("sha256", key, msg)
		mk = append(mk, prev...)
	}
	vr.Assert("c16.k_encr", vr.EqBytes(kenc, mk[0:16]))
	vr.Assert("c16.k_aut", vr.EqBytes(kaut, mk[16:48]))
	vr.Assert("c16.k_re", vr.EqBytes(kre, mk[48:80]))
	vr.Assert("c16.msk", vr.EqBytes(msk, mk[80:144]))
	vr.Assert("c16.emsk", vr.EqBytes(emsk, mk[144:208]))
}

// HPrfPrimeEmpty (C16): empty IK' or CK' is refused.  Params: which (0 IK', 1 CK', 2 both), other length.
func HPrfPrimeEmpty() {
	which, l := vr.Param(0), vr.Param(1)
	ik, ck := vr.Bytes(l), vr.Bytes(l)
	if which == 0 || which == 2 {
		ik = nil
	}
	if which == 1 || which == 2 {
		ck = []byte{}
	}
	_, _, _, _, _, err := EapAkaPrimePRF(ik, ck, "id")
	vr.Assert("c16.refuse", err != nil)
}

// vSpecPrfPrime is the independent PRF' (the first 208 octets of MK).
func vSpecPrfPrime(ik, ck, id []byte) []byte {
	key := append(append([]byte{}, ik...), ck...)
	s := append([]byte("EAP-AKA'"), id...)
	var mk, prev []byte
	for i := 1; len(mk) < 208; i++ {
		msg := append(append(append([]byte{}, prev...), s...), byte(i))
		prev = vr.HMAC("sha256", key, msg)
		mk = append(mk, prev...)
	}
	return mk[:208]
}

// HPrfPrimeTwice (C16): two derivations in a row with unrelated inputs each give the keys of their own
// inputs (nothing is remembered from one call to the next), also when the concatenations IK'|CK'|S of the
// two calls could coincide.  Params: |IK'|, |CK'|, |identity| of the first call, then of the second.
func HPrfPrimeTwice() {
	for c := 0; c < 2; c++ {
		ik, ck, id := vr.Bytes(vr.Param(3*c)), vr.Bytes(vr.Param(3*c+1)), vr.Bytes(vr.Param(3*c+2))
		kenc, kaut, kre, msk, emsk, err := EapAkaPrimePRF(append([]byte{}, ik...), append([]byte{}, ck...), string(id))
		vr.Assert("c16.twice.noerr", err == nil)
		if err != nil {
			return
		}
		mk := vSpecPrfPrime(ik, ck, id)
		all := append(append(append(append(append([]byte{}, kenc...), kaut...), kre...), msk...), emsk...)
		vr.Assert("c16.twice.keys", vr.EqBytes(all, mk))
	}
}
