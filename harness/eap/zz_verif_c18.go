package eap

import (
	vr "github.com/free5gc/ike/internal/verifrt"
)

// HNames (C18): the name / error-text paths - String() of every EAP type and attribute type value
// (named or not), and the refusals of GetAttr / SetAttr that format them - are run under the write monitor:
// they may read the package-level name tables but write nothing shared.
func HNames() {
	t := vr.U8()
	_ = EapType(t).String()
	_ = EapAkaPrimeAttrType(t).String()
	a := VGenAka(vr.Param(0), -1)
	_, err := a.GetAttr(EapAkaPrimeAttrType(t))
	if err != nil {
		vr.Cover("c18.names.getattr-refused")
	}
	if err := a.SetAttr(EapAkaPrimeAttrType(t), vr.Bytes(vr.Param(1))); err != nil {
		vr.Cover("c18.names.setattr-refused")
	}
}
