package eap

import (
	vr "github.com/free5gc/ike/internal/verifrt"
)

// ---------------------------------------------------------------------------------------------
// Independent EAP codec written from RFC 3748 section 4-5, RFC 4187 section 10, RFC 5448 section 3
// (layouts in DESIGN.md Appendix A).  Shares no code with eap.go / eap_aka_prime.go.

// VRefAkaAttr is one attribute on the wire, in the order the sender chose.
type VRefAkaAttr struct {
	Type  uint8
	Value []byte // unpadded value
}

func vRefAkaAttrBytes(a VRefAkaAttr, pad uint8) []byte {
	var out []byte
	switch a.Type {
	case 1, 2, 11: // AT_RAND, AT_AUTN, AT_MAC: reserved(2) + 16 octets, length 5
		out = append(out, a.Type, 5, 0, 0)
		out = append(out, a.Value...)
	case 3, 23: // AT_RES, AT_KDF_INPUT: exact length in bits(2) + value + zero padding
		n := len(a.Value)
		total := 4 + n
		for total%4 != 0 {
			total++
		}
		bits := n * 8
		out = append(out, a.Type, uint8(total/4), uint8(bits>>8), uint8(bits))
		out = append(out, a.Value...)
		for len(out) < total {
			out = append(out, pad)
		}
	case 24: // AT_KDF: 2-octet value, length 1
		out = append(out, a.Type, 1)
		out = append(out, a.Value...)
	case 134: // AT_CHECKCODE: reserved(2) + 0 / 20 / 32 octets
		out = append(out, a.Type, uint8((4+len(a.Value))/4), 0, 0)
		out = append(out, a.Value...)
	default:
		panic("vRefAkaAttrBytes: unknown attribute")
	}
	return out
}

// VRefEncodeAka: EAP-AKA' packet: code, id, length, type 50, subtype, reserved(2), attributes.
// VRefAkaNum is the RFC 4187 / RFC 5448 number of an attribute, by its position in VAkaAttrs (the
// reference encoder does not take the numbers from the library's constants: they are part of what is
// checked).  AT_RAND 1, AT_AUTN 2, AT_RES 3, AT_MAC 11, AT_KDF 24, AT_KDF_INPUT 23, AT_CHECKCODE 134.
func VRefAkaNum(t EapAkaPrimeAttrType) uint8 {
	nums := []uint8{1, 2, 3, 11, 24, 23, 134}
	for i, x := range VAkaAttrs {
		if x == t {
			return nums[i]
		}
	}
	panic("VRefAkaNum: attribute outside VAkaAttrs")
}

// vRefAkaConst: the library's name for a wire number (inverse of VRefAkaNum).
func vRefAkaConst(n uint8) EapAkaPrimeAttrType {
	for i, x := range []uint8{1, 2, 3, 11, 24, 23, 134} {
		if x == n {
			return VAkaAttrs[i]
		}
	}
	return EapAkaPrimeAttrType(n)
}

func VRefEncodeAka(code, id, subtype uint8, attrs []VRefAkaAttr) []byte {
	body := []byte{50, subtype, 0, 0}
	for _, a := range attrs {
		body = append(body, vRefAkaAttrBytes(a, 0)...)
	}
	l := 4 + len(body)
	out := []byte{code, id, uint8(l >> 8), uint8(l)}
	return append(out, body...)
}

// VRefEncodeEAP encodes e with the reference layouts (AKA' attributes in ascending type order).
func VRefEncodeEAP(e *EAP) []byte {
	var body []byte
	switch x := e.EapTypeData.(type) {
	case nil:
	case *EapIdentity:
		body = append([]byte{1}, x.IdentityData...)
	case *EapNotification:
		body = append([]byte{2}, x.NotificationData...)
	case *EapNak:
		body = append([]byte{3}, x.NakData...)
	case *EapExpanded:
		body = []byte{254, uint8(x.VendorID >> 16), uint8(x.VendorID >> 8), uint8(x.VendorID),
			uint8(x.VendorType >> 24), uint8(x.VendorType >> 16), uint8(x.VendorType >> 8), uint8(x.VendorType)}
		body = append(body, x.VendorData...)
	case *EapAkaPrime:
		var attrs []VRefAkaAttr
		for _, t := range []EapAkaPrimeAttrType{AT_RAND, AT_AUTN, AT_RES, AT_MAC, AT_KDF_INPUT, AT_KDF, AT_CHECKCODE} {
			if a, ok := x.attributes[t]; ok {
				attrs = append(attrs, VRefAkaAttr{Type: VRefAkaNum(t), Value: a.value})
			}
		}
		return VRefEncodeAka(uint8(e.Code), e.Identifier, uint8(x.subType), attrs)
	}
	l := 4 + len(body)
	out := []byte{uint8(e.Code), e.Identifier, uint8(l >> 8), uint8(l)}
	return append(out, body...)
}

// VRefParseEAP is the strict reference parser: it fails (ok = false) unless the packet is well formed.
func VRefParseEAP(b []byte) (*EAP, bool) {
	if len(b) < 4 {
		return nil, false
	}
	if int(b[2])<<8|int(b[3]) != len(b) {
		return nil, false
	}
	e := &EAP{Code: EapCode(b[0]), Identifier: b[1]}
	if len(b) == 4 {
		return e, true
	}
	data := b[5:]
	switch b[4] {
	case 1:
		e.EapTypeData = &EapIdentity{IdentityData: append([]byte{}, data...)}
	case 2:
		e.EapTypeData = &EapNotification{NotificationData: append([]byte{}, data...)}
	case 3:
		e.EapTypeData = &EapNak{NakData: append([]byte{}, data...)}
	case 254:
		if len(data) < 7 {
			return nil, false
		}
		e.EapTypeData = &EapExpanded{
			VendorID:   uint32(data[0])<<16 | uint32(data[1])<<8 | uint32(data[2]),
			VendorType: uint32(data[3])<<24 | uint32(data[4])<<16 | uint32(data[5])<<8 | uint32(data[6]),
			VendorData: append([]byte{}, data[7:]...)}
	case 50:
		if len(data) < 3 || data[1] != 0 || data[2] != 0 {
			return nil, false
		}
		a := &EapAkaPrime{subType: EapAkaSubtype(data[0]), attributes: map[EapAkaPrimeAttrType]*EapAkaPrimeAttr{}}
		rest := data[3:]
		for len(rest) > 0 {
			if len(rest) < 2 {
				return nil, false
			}
			t, words := rest[0], int(rest[1])
			if words == 0 || 4*words > len(rest) {
				return nil, false
			}
			at := rest[:4*words]
			rest = rest[4*words:]
			attr := &EapAkaPrimeAttr{attrType: vRefAkaConst(t), length: uint8(words)}
			switch t {
			case 1, 2, 11:
				if words != 5 || at[2] != 0 || at[3] != 0 {
					return nil, false
				}
				attr.value = append([]byte{}, at[4:]...)
			case 3, 23:
				bits := int(at[2])<<8 | int(at[3])
				if bits%8 != 0 || 4+bits/8 > len(at) || len(at)-(4+bits/8) > 3 {
					return nil, false
				}
				for _, p := range at[4+bits/8:] {
					if p != 0 {
						return nil, false
					}
				}
				attr.reserved = uint16(bits)
				attr.value = append([]byte{}, at[4:4+bits/8]...)
			case 24:
				if words != 1 {
					return nil, false
				}
				attr.value = append([]byte{}, at[2:4]...)
			case 134:
				if at[2] != 0 || at[3] != 0 {
					return nil, false
				}
				attr.value = append([]byte{}, at[4:]...)
			default:
				return nil, false
			}
			if _, dup := a.attributes[attr.attrType]; dup {
				return nil, false
			}
			a.attributes[attr.attrType] = attr
		}
		e.EapTypeData = a
	default:
		return nil, false
	}
	return e, true
}

// HEapRefLemma: sanity lemma of the reference itself, VRefParseEAP(VRefEncodeEAP(e)) == e.
// Params: method, AKA' mask, tier.
func HEapRefLemma() {
	e := VGenEAP(vr.Param(0), vr.Param(1), vr.Param(2))
	b := VRefEncodeEAP(e)
	d, ok := VRefParseEAP(b)
	vr.Assert("ref.eap.lemma.ok", ok)
	if ok {
		vr.Assert("ref.eap.lemma.equal", VEqEAP(e, d))
	}
}
