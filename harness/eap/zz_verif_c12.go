package eap

import (
	vr "github.com/free5gc/ike/internal/verifrt"
)

// HStableEap (C12): for an arbitrary EAP packet of length Param(0): decode ok and re-encode ok =>
// the re-encoding decodes to an equal packet and encodes to itself.
func HStableEap() {
	b := vr.Input(vr.Param(0))
	e1 := new(EAP)
	if err := e1.Unmarshal(b); err != nil {
		vr.Cover("c12.eap.rejected")
		return
	}
	b2, err := e1.Marshal()
	if err != nil {
		vr.Cover("c12.eap.not-encodable")
		return
	}
	vr.Cover("c12.eap.reencoded")
	vr.Output("c12.eap.reencoding", b2)
	e2 := new(EAP)
	err = e2.Unmarshal(b2)
	vr.Assert("c12.redecode.ok", err == nil)
	if err != nil {
		return
	}
	vr.Assert("c12.equal", VEqEAP(e1, e2))
	b3, err := e2.Marshal()
	vr.Assert("c12.reencode.ok", err == nil)
	if err == nil {
		vr.Assert("c12.fixpoint", vr.EqBytes(b2, b3))
	}
}
