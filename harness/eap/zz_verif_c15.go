package eap

import (
	vr "github.com/free5gc/ike/internal/verifrt"
)

// vSpecMacInput: the complete EAP packet as it appears on the wire with the AT_MAC value zeroed,
// produced by the reference encoder.
func vSpecMacInput(e *EAP) []byte {
	c := VCloneEAP(e)
	a := c.EapTypeData.(*EapAkaPrime)
	if a.attributes == nil {
		a.attributes = map[EapAkaPrimeAttrType]*EapAkaPrimeAttr{}
	}
	a.attributes[AT_MAC] = &EapAkaPrimeAttr{attrType: AT_MAC, length: 5, value: make([]byte, 16)}
	return VRefEncodeEAP(c)
}

// HMacSender (C15): CalcEapAkaPrimeAtMAC(key) equals the first 16 octets of HMAC-SHA-256(key, wire image
// with AT_MAC zeroed), whatever AT_MAC held before (arbitrary prior content when the mask includes it).
// Params: AKA' mask, key length, tier.
func HMacSender() {
	mask, kl, tier := vr.Param(0), vr.Param(1), vr.Param(2)
	e := VGenEAP(50, mask, tier)
	key := vr.Bytes(kl)
	w0 := vSpecMacInput(e)
	gk := VGuarded(key)
	mac, err := e.CalcEapAkaPrimeAtMAC(gk[:kl])
	vr.Assert("c15.key-untouched", VGuardIntact(gk, key))
	vr.Assert("c15.sender.noerr", err == nil)
	if err != nil {
		return
	}
	vr.Assert("c15.arg", vr.EqBytes(mac, vr.HMAC("sha256", key, w0)[:16]))
}

// HMacReceiver (C15): a receiver that decodes the transmitted packet and computes the code with the
// same key obtains the transmitted value: its keyed hash is applied to exactly the octets the sender
// authenticated.  Params: AKA' mask, key length, tier.
func HMacReceiver() {
	mask, kl, tier := vr.Param(0), vr.Param(1), vr.Param(2)
	e := VGenEAP(50, mask|8, tier)
	key := vr.Bytes(kl)
	w0 := vSpecMacInput(e)
	mac, err := e.CalcEapAkaPrimeAtMAC(append([]byte{}, key...))
	vr.Assert("c15.sender.noerr", err == nil)
	if err != nil {
		return
	}
	err = e.EapTypeData.(*EapAkaPrime).SetAttr(AT_MAC, mac)
	vr.Assert("c15.setmac.noerr", err == nil)
	w, err := e.Marshal()
	vr.Assert("c15.marshal.noerr", err == nil)
	if err != nil {
		return
	}
	d := new(EAP)
	err = d.Unmarshal(w)
	vr.Assert("c15.unmarshal.noerr", err == nil)
	if err != nil {
		return
	}
	got, gerr := d.EapTypeData.(*EapAkaPrime).GetAttr(AT_MAC)
	vr.Assert("c15.transmitted", gerr == nil && vr.EqBytes(got.GetValue(), mac))
	mac2, err := d.CalcEapAkaPrimeAtMAC(append([]byte{}, key...))
	vr.Assert("c15.receiver.noerr", err == nil)
	if err != nil {
		return
	}
	// the receiver applies the keyed hash to the same octets: equal to the specification over w0
	vr.Assert("c15.receiver-arg", vr.EqBytes(mac2, vr.HMAC("sha256", key, w0)[:16]))
}

// HMacReceiverForeignOrder (C15): well-formed packets of an independent encoder in any attribute
// order.  Params: first attribute index, second attribute index (both in VAkaAttrs, MAC is added), key
// length, value tier (-1 fixed sizes, 0 the accepted sizes of each attribute including empty ones).
func HMacReceiverForeignOrder() {
	i, j, kl, vt := vr.Param(0), vr.Param(1), vr.Param(2), vr.Param(3)
	key := vr.Bytes(kl)
	var attrs []VRefAkaAttr
	for _, k := range []int{i, j} {
		t := VAkaAttrs[k]
		if t == AT_MAC {
			continue
		}
		attrs = append(attrs, VRefAkaAttr{Type: VRefAkaNum(t), Value: VGenAkaValue(t, vt)})
	}
	// the sender places AT_MAC at an arbitrary position
	pos := vr.IntIn(0, len(attrs))
	withMac := func(mac []byte) []VRefAkaAttr {
		var out []VRefAkaAttr
		out = append(out, attrs[:pos]...)
		out = append(out, VRefAkaAttr{Type: VRefAkaNum(AT_MAC), Value: mac})
		return append(out, attrs[pos:]...)
	}
	code, id, sub := vr.U8(), vr.U8(), vr.U8()
	vr.Assume(code == 1 || code == 2)
	// the two reserved octets behind the subtype are the sender's business too: whatever they hold is
	// covered by the code
	r1, r2 := vr.U8(), vr.U8()
	w0 := VRefEncodeAka(code, id, sub, withMac(make([]byte, 16)))
	w0[6], w0[7] = r1, r2
	mac := vr.HMAC("sha256", key, w0)[:16]
	w := VRefEncodeAka(code, id, sub, withMac(mac))
	w[6], w[7] = r1, r2
	d := new(EAP)
	err := d.Unmarshal(w)
	vr.Assert("c15.foreign.unmarshal.noerr", err == nil)
	if err != nil {
		return
	}
	mac2, err := d.CalcEapAkaPrimeAtMAC(append([]byte{}, key...))
	vr.Assert("c15.foreign.noerr", err == nil)
	if err != nil {
		return
	}
	vr.Assert("c15.foreign.receiver-arg", vr.EqBytes(mac2, mac))
}

// HMacReceiverReuse (C15): the receiver decodes two packets in a row into the same EAP value (a
// long-lived receive object) and computes the code of the second: it must be the code over the second
// packet as transmitted, whatever the first one contained.  Params: first mask, second mask, key length.
func HMacReceiverReuse() {
	m1, m2, kl := vr.Param(0), vr.Param(1), vr.Param(2)
	key := vr.Bytes(kl)
	e1 := VGenEAP(50, m1|8, -1)
	w1, err := e1.Marshal()
	vr.Assert("c15.reuse.marshal1", err == nil)
	e2 := VGenEAP(50, m2|8, -1)
	w0 := vSpecMacInput(e2)
	w2, err := e2.Marshal()
	vr.Assert("c15.reuse.marshal2", err == nil)
	d := new(EAP)
	vr.Assert("c15.reuse.unmarshal1", d.Unmarshal(w1) == nil)
	vr.Assert("c15.reuse.unmarshal2", d.Unmarshal(w2) == nil)
	mac, err := d.CalcEapAkaPrimeAtMAC(append([]byte{}, key...))
	vr.Assert("c15.reuse.noerr", err == nil)
	if err == nil {
		vr.Assert("c15.reuse.receiver-arg", vr.EqBytes(mac, vr.HMAC("sha256", key, w0)[:16]))
	}
}
