package eap

import (
	vr "github.com/free5gc/ike/internal/verifrt"
)

// HEapWellFormed (C14): the encoded packet is accepted by the strict reference parser (length field =
// size, Success/Failure without data, 24-bit vendor id / 32-bit vendor type, every EAP-AKA' attribute a
// multiple of four octets with its length in words, zero padding, exact bit length for AT_RES /
// AT_KDF_INPUT), the parser recovers the packet, and the octets are exactly those of the reference
// encoder.  Params: method, AKA' mask, tier.
func HEapWellFormed() {
	e := VGenEAP(vr.Param(0), vr.Param(1), vr.Param(2))
	snap := VCloneEAP(e)
	b, err := e.Marshal()
	vr.Assert("c14.marshal.noerr", err == nil)
	if err != nil {
		return
	}
	vr.Assert("c14.len", len(b) >= 4 && int(b[2])<<8|int(b[3]) == len(b))
	if e.EapTypeData == nil {
		vr.Assert("c14.nodata", len(b) == 4)
	}
	d, ok := VRefParseEAP(b)
	vr.Assert("c14.wellformed", ok)
	if ok {
		vr.Assert("c14.wellformed.equal", VEqEAP(snap, d))
	}
	vr.Assert("c14.canonical", vr.EqBytes(b, VRefEncodeEAP(snap)))
	// encoding the same unmodified message twice gives identical octets (the executor forks over map
	// iteration orders independently in both calls)
	b2, err := e.Marshal()
	vr.Assert("c14.marshal2.noerr", err == nil)
	if err == nil {
		vr.Assert("c14.deterministic", vr.EqBytes(b, b2))
	}
}

// HSetterSizes (C14): the setter refuses wrong sizes for the fixed-size attributes and a value read
// back - freshly set, and after a wire round trip - is exactly the value that was set.
// Params: attribute index in VAkaAttrs, offered size.
func HSetterSizes() {
	t := VAkaAttrs[vr.Param(0)]
	n := vr.Param(1)
	v := vr.Bytes(n)
	keep := append([]byte{}, v...)
	a := NewEapAkaPrime(SubtypeAkaChallenge)
	err := a.SetAttr(t, v)
	accept := true
	switch t {
	case AT_RAND, AT_AUTN, AT_MAC:
		accept = n == 16
	case AT_KDF:
		accept = n == 2
	case AT_RES:
		accept = n >= 4 && n <= 16
	case AT_CHECKCODE:
		if n != 0 && n != 20 && n != 32 {
			return // sizes outside the stated domain of the property
		}
	}
	if !accept {
		vr.Assert("c14.refuse", err != nil)
		// a refused set leaves no trace: the attribute is still absent and the packet encodes as an
		// attribute-less one that the reference parser and the library's own decoder accept
		_, gerr := a.GetAttr(t)
		vr.Assert("c14.refuse.absent", gerr != nil)
		e := &EAP{Code: EapCodeRequest, Identifier: vr.U8(), EapTypeData: a}
		b, merr := e.Marshal()
		vr.Assert("c14.refuse.marshal.noerr", merr == nil)
		if merr == nil {
			vr.Assert("c14.refuse.no-trace", len(b) == 8)
			vr.Assert("c14.refuse.redecodes", new(EAP).Unmarshal(b) == nil)
		}
		return
	}
	vr.Assert("c14.accept", err == nil)
	if err != nil {
		return
	}
	vr.Havoc(v) // the message keeps its own copy
	got, gerr := a.GetAttr(t)
	vr.Assert("c14.get.found", gerr == nil)
	if gerr == nil {
		vr.Assert("c14.get", vr.EqBytes(got.GetValue(), keep))
	}
	e := &EAP{Code: EapCodeRequest, Identifier: vr.U8(), EapTypeData: a}
	b, err := e.Marshal()
	vr.Assert("c14.set.marshal.noerr", err == nil)
	if err != nil {
		return
	}
	_, ok := VRefParseEAP(b)
	vr.Assert("c14.set.wellformed", ok)
	d := new(EAP)
	err = d.Unmarshal(b)
	vr.Assert("c14.set.unmarshal.noerr", err == nil)
	if err != nil {
		return
	}
	da, isAka := d.EapTypeData.(*EapAkaPrime)
	vr.Assert("c14.set.type", isAka)
	if !isAka {
		return
	}
	got2, gerr := da.GetAttr(t)
	vr.Assert("c14.get-decoded.found", gerr == nil)
	if gerr == nil {
		vr.Assert("c14.get-decoded", vr.EqBytes(got2.GetValue(), keep))
	}
}

// HEapOversize (C14): a packet that does not fit the 16-bit length gives an error, not a truncated field.
// Param: expanded vendor data length.
func HEapOversize() {
	n := vr.Param(0)
	e := &EAP{Code: EapCodeRequest, Identifier: vr.U8(), EapTypeData: &EapExpanded{VendorID: 10415, VendorType: 3, VendorData: make([]byte, n)}}
	b, err := e.Marshal()
	if 4+8+n > 65535 {
		vr.Assert("c14.oversize.error", err != nil)
	} else {
		vr.Assert("c14.fits.noerr", err == nil)
		if err == nil {
			vr.Assert("c14.fits.len", int(b[2])<<8|int(b[3]) == len(b))
		}
	}
}

// HMarshalDeterministicDecoded (C14 / C20): a decoded packet to which attributes are then added through
// the API encodes to the same octets every time, under every map iteration order.
// Params: attribute index of the received attribute, two attribute indices to add.
func HMarshalDeterministicDecoded() {
	r, a1, a2 := VAkaAttrs[vr.Param(0)], VAkaAttrs[vr.Param(1)], VAkaAttrs[vr.Param(2)]
	w := VRefEncodeAka(1, vr.U8(), vr.U8(), []VRefAkaAttr{{Type: VRefAkaNum(r), Value: VGenAkaValue(r, -1)}})
	d := new(EAP)
	vr.Assert("c14.detdec.unmarshal", d.Unmarshal(w) == nil)
	a, ok := d.EapTypeData.(*EapAkaPrime)
	vr.Assert("c14.detdec.type", ok)
	if !ok {
		return
	}
	vr.Assert("c14.detdec.set", a.SetAttr(a1, VGenAkaValue(a1, -1)) == nil && a.SetAttr(a2, VGenAkaValue(a2, -1)) == nil)
	tok := vr.FrameBegin(a)
	b1, err1 := d.Marshal()
	vr.Assert("c14.detdec.encode-writes-nothing", vr.FrameUnchanged(tok))
	b2, err2 := d.Marshal()
	vr.Assert("c14.detdec.noerr", err1 == nil && err2 == nil)
	if err1 == nil && err2 == nil {
		vr.Assert("c14.deterministic.decoded", vr.EqBytes(b1, b2))
		_, wf := VRefParseEAP(b1)
		vr.Assert("c14.detdec.wellformed", wf)
	}
}
