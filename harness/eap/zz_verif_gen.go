package eap

import (
	vr "github.com/free5gc/ike/internal/verifrt"
)

// ---------------------------------------------------------------------------------------------
// Encodable-domain generator and field-by-field comparator for EAP packets (shared by C01, C03,
// C05, C06, C13, C14, C20).  Shapes (which method, which attributes, lengths) are concrete per
// path (forked by IntIn/IntOf); every field value is symbolic.

var VAkaAttrs = []EapAkaPrimeAttrType{AT_RAND, AT_AUTN, AT_RES, AT_MAC, AT_KDF, AT_KDF_INPUT, AT_CHECKCODE}

// VGenAkaValue returns a symbolic value of an accepted size for attribute t.
func VGenAkaValue(t EapAkaPrimeAttrType, tier int) []byte {
	switch t {
	case AT_RAND, AT_AUTN, AT_MAC:
		return vr.Bytes(16)
	case AT_RES:
		if tier < 0 {
			return vr.Bytes(5)
		}
		if tier == 0 {
			return vr.Bytes(vr.IntOf(4, 5, 16))
		}
		return vr.Bytes(vr.IntIn(4, 16))
	case AT_KDF:
		return vr.Bytes(2)
	case AT_KDF_INPUT:
		if tier < 0 {
			return vr.Bytes(3)
		}
		if tier == 0 {
			return vr.Bytes(vr.IntOf(0, 1, 4, 6, 250, 1000))
		}
		return vr.Bytes(vr.IntOf(0, 1, 2, 3, 4, 5, 6, 7, 8, 31, 32, 33, 249, 250, 251, 252, 300, 505, 1000, 1016))
	case AT_CHECKCODE:
		if tier < 0 {
			return vr.Bytes(20)
		}
		return vr.Bytes(vr.IntOf(0, 20, 32))
	}
	panic("VGenAkaValue: unsupported attribute")
}

// VGenAka builds an EAP-AKA' body from the attribute subset given as a bit mask over VAkaAttrs.
func VGenAka(mask int, tier int) *EapAkaPrime {
	a := NewEapAkaPrime(EapAkaSubtype(vr.U8()))
	for i, t := range VAkaAttrs {
		if mask&(1<<uint(i)) != 0 {
			if err := a.SetAttr(t, VGenAkaValue(t, tier)); err != nil {
				vr.Assert("gen.aka.setattr", false)
			}
		}
	}
	return a
}

// VGenEAP builds an EAP packet.  method: 0 success/failure (no data), 1 identity, 2 notification,
// 3 nak, 254 expanded, 50 AKA' (attribute mask in arg).
func VGenEAP(method int, arg int, tier int) *EAP {
	e := &EAP{Identifier: vr.U8()}
	code := vr.U8()
	if method == 0 {
		vr.Assume(code == uint8(EapCodeSuccess) || code == uint8(EapCodeFailure))
		e.Code = EapCode(code)
		return e
	}
	vr.Assume(code == uint8(EapCodeRequest) || code == uint8(EapCodeResponse))
	e.Code = EapCode(code)
	dl := 0
	if method == 1 || method == 2 || method == 3 {
		if tier < 0 {
			dl = 2
		} else if tier == 0 {
			dl = vr.IntOf(1, 2, 5)
		} else {
			dl = vr.IntOf(1, 2, 3, 4, 5, 8, 17, 24)
		}
	}
	switch method {
	case 1:
		e.EapTypeData = &EapIdentity{IdentityData: vr.Bytes(dl)}
	case 2:
		e.EapTypeData = &EapNotification{NotificationData: vr.Bytes(dl)}
	case 3:
		e.EapTypeData = &EapNak{NakData: vr.Bytes(dl)}
	case 254:
		x := &EapExpanded{VendorID: vr.U32() & 0x00ffffff, VendorType: vr.U32()}
		if tier < 0 {
			x.VendorData = vr.Bytes(2)
		} else if tier == 0 {
			x.VendorData = vr.Bytes(vr.IntOf(0, 1, 4))
		} else {
			x.VendorData = vr.Bytes(vr.IntOf(0, 1, 2, 3, 4, 8, 17, 24))
		}
		e.EapTypeData = x
	case 50:
		e.EapTypeData = VGenAka(arg, tier)
	default:
		panic("VGenEAP: unknown method")
	}
	return e
}

// vEqAkaAttr compares attribute t of both bodies.  The attribute map is read directly (in-package)
// instead of through GetAttr, whose result does not depend on the map iteration order but whose loop
// would make the executor fork over orders at every call; GetAttr itself is exercised by C14.
func vEqAkaAttr(a, b *EapAkaPrime, t EapAkaPrimeAttrType) bool {
	x, okx := a.attributes[t]
	y, oky := b.attributes[t]
	if okx != oky {
		return false
	}
	if !okx {
		return true
	}
	return vr.All(x.attrType == t, y.attrType == t, vr.EqBytes(x.GetValue(), y.GetValue()))
}

// VEqAka compares two EAP-AKA' bodies through the public accessors, plus the attribute count.
func VEqAka(a, b *EapAkaPrime) bool {
	ok := a.SubType() == b.SubType()
	ok = vr.All(ok, len(a.attributes) == len(b.attributes))
	for _, t := range VAkaAttrs {
		ok = vr.All(ok, vEqAkaAttr(a, b, t))
	}
	return ok
}

// VEqEAP compares two EAP packets field by field (nil and empty byte strings are equal).
func VEqEAP(a, b *EAP) bool {
	if a == nil || b == nil {
		return a == nil && b == nil
	}
	ok := vr.All(a.Code == b.Code, a.Identifier == b.Identifier)
	if a.EapTypeData == nil || b.EapTypeData == nil {
		return vr.All(ok, a.EapTypeData == nil && b.EapTypeData == nil)
	}
	switch x := a.EapTypeData.(type) {
	case *EapIdentity:
		y, is := b.EapTypeData.(*EapIdentity)
		if !is {
			return false
		}
		return vr.All(ok, vr.EqBytes(x.IdentityData, y.IdentityData))
	case *EapNotification:
		y, is := b.EapTypeData.(*EapNotification)
		if !is {
			return false
		}
		return vr.All(ok, vr.EqBytes(x.NotificationData, y.NotificationData))
	case *EapNak:
		y, is := b.EapTypeData.(*EapNak)
		if !is {
			return false
		}
		return vr.All(ok, vr.EqBytes(x.NakData, y.NakData))
	case *EapExpanded:
		y, is := b.EapTypeData.(*EapExpanded)
		if !is {
			return false
		}
		return vr.All(ok, x.VendorID == y.VendorID, x.VendorType == y.VendorType, vr.EqBytes(x.VendorData, y.VendorData))
	case *EapAkaPrime:
		y, is := b.EapTypeData.(*EapAkaPrime)
		if !is {
			return false
		}
		return vr.All(ok, VEqAka(x, y))
	}
	return false
}

// HEapRoundTrip (C03 / C14): Unmarshal(Marshal(e)) == e for the shape Param(0) (method),
// Param(1) (AKA' attribute mask), Param(2) (tier).
func HEapRoundTrip() {
	e := VGenEAP(vr.Param(0), vr.Param(1), vr.Param(2))
	b, err := e.Marshal()
	if err == nil {
		vr.Output("c03.eap.encoding", b)
	}
	vr.Assert("c03.eap.encode.noerr", err == nil)
	if err != nil {
		return
	}
	d := new(EAP)
	err = d.Unmarshal(b)
	vr.Assert("c03.eap.decode.noerr", err == nil)
	if err != nil {
		return
	}
	vr.Assert("c03.eap.equal", VEqEAP(e, d))
}

// VCloneEAP makes a deep copy (snapshot) of an EAP packet.
func VCloneEAP(e *EAP) *EAP {
	if e == nil {
		return nil
	}
	c := &EAP{Code: e.Code, Identifier: e.Identifier}
	switch x := e.EapTypeData.(type) {
	case *EapIdentity:
		c.EapTypeData = &EapIdentity{IdentityData: vCloneBytes(x.IdentityData)}
	case *EapNotification:
		c.EapTypeData = &EapNotification{NotificationData: vCloneBytes(x.NotificationData)}
	case *EapNak:
		c.EapTypeData = &EapNak{NakData: vCloneBytes(x.NakData)}
	case *EapExpanded:
		c.EapTypeData = &EapExpanded{VendorID: x.VendorID, VendorType: x.VendorType, VendorData: vCloneBytes(x.VendorData)}
	case *EapAkaPrime:
		a := &EapAkaPrime{subType: x.subType, reserved: x.reserved}
		if x.attributes != nil {
			a.attributes = make(map[EapAkaPrimeAttrType]*EapAkaPrimeAttr)
			for _, t := range VAkaAttrs {
				if at, ok := x.attributes[t]; ok {
					a.attributes[t] = &EapAkaPrimeAttr{attrType: at.attrType, length: at.length, reserved: at.reserved, value: vCloneBytes(at.value)}
				}
			}
		}
		c.EapTypeData = a
	}
	return c
}

func vCloneBytes(b []byte) []byte {
	if b == nil {
		return nil
	}
	return append([]byte{}, b...)
}

// VEqEAPExact additionally compares the private bookkeeping of EAP-AKA' attributes (length word,
// reserved / bit-length field), for the frame conditions of C20.
func VEqEAPExact(a, b *EAP) bool {
	ok := VEqEAP(a, b)
	x, isx := a.EapTypeData.(*EapAkaPrime)
	y, isy := b.EapTypeData.(*EapAkaPrime)
	if isx && isy {
		ok = vr.All(ok, x.reserved == y.reserved)
		for _, t := range VAkaAttrs {
			p, okp := x.attributes[t]
			q, okq := y.attributes[t]
			if okp && okq {
				ok = vr.All(ok, p.length == q.length, p.reserved == q.reserved)
			}
		}
	}
	return ok
}

// VGuarded copies b into a buffer with 24 further octets (0xA5) behind it, so that the argument handed to
// the code under test is a view with spare capacity of memory its caller goes on using; VGuardIntact
// checks that neither the view nor what lies behind it was written.
func VGuarded(b []byte) []byte {
	g := make([]byte, len(b)+24)
	copy(g, b)
	for i := len(b); i < len(g); i++ {
		g[i] = 0xA5
	}
	return g
}

func VGuardIntact(g, b []byte) bool {
	ok := vr.EqBytes(g[:len(b)], b)
	for i := len(b); i < len(g); i++ {
		ok = vr.All(ok, g[i] == 0xA5)
	}
	return ok
}
