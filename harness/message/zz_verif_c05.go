package message

import (
	vr "github.com/free5gc/ike/internal/verifrt"
)

// HStrictParseOfEncode (C05 a): the library's encoding is accepted by the strict reference parser,
// which recovers exactly the fields that were encoded.  Params: tier, payload kinds..., 0.
func HStrictParseOfEncode() {
	m := VGenMessage(1, vr.Param(0))
	snap := VCloneMessage(m)
	b, err := m.Encode()
	vr.Assert("c05.encode.noerr", err == nil)
	if err != nil {
		return
	}
	d, ok := VRefParse(b)
	vr.Assert("c05.strict.ok", ok)
	if ok {
		vr.Assert("c05.strict.equal", VEqMessage(snap, d))
	}
}

// HDecodeLiberal (C05 b): datagrams of the independent encoder, using the liberties the RFC grants a
// sender (reserved bits, critical flag on understood payloads, transform order), decode to the
// fields they were built from.  Params: tier, lib (0/1), perm (0..2), payload kinds..., 0.
func HDecodeLiberal() {
	m := VGenMessage(3, vr.Param(0))
	b := VRefEncode(m, vr.Param(1) == 1, vr.Param(2))
	vr.Output("c05.reference-encoding", b)
	// expected: transforms filed per type in wire order
	exp := VCloneMessage(m)
	if vr.Param(2) != 0 {
		for _, p := range exp.Payloads {
			if sa, ok := p.(*SecurityAssociation); ok {
				for _, pr := range sa.Proposals {
					ts := vWireOrder(pr)
					n := len(ts)
					pr.EncryptionAlgorithm, pr.PseudorandomFunction, pr.IntegrityAlgorithm = nil, nil, nil
					pr.DiffieHellmanGroup, pr.ExtendedSequenceNumbers = nil, nil
					for i := range ts {
						if vr.Param(2) == 1 {
							vFile(pr, ts[n-1-i])
						} else {
							vFile(pr, ts[(i+1)%n])
						}
					}
				}
			}
		}
	}
	d := new(IKEMessage)
	err := d.Decode(b)
	vr.Assert("c05.liberal.noerr", err == nil)
	if err != nil {
		return
	}
	vr.Assert("c05.liberal.equal", VEqMessage(exp, d))
}

// HRefLemma: sanity lemma of the reference codec itself, VRefParse(VRefEncode(m)) == m.
func HRefLemma() {
	m := VGenMessage(1, vr.Param(0))
	b := VRefEncode(m, false, 0)
	d, ok := VRefParse(b)
	vr.Assert("ref.lemma.ok", ok)
	if ok {
		vr.Assert("ref.lemma.equal", VEqMessage(m, d))
	}
}
