package message

import (
	vr "github.com/free5gc/ike/internal/verifrt"
)

// HNames (C18): String() of every payload type value, named or not, under the write monitor.
func HNames() {
	s := IkePayloadType(vr.U8()).String()
	if len(s) > 0 {
		vr.Cover("c18.names.payload-type")
	}
}
