package message

import (
	vr "github.com/free5gc/ike/internal/verifrt"
)

func vNewPayload(kind int) IKEPayload {
	switch IkePayloadType(kind) {
	case TypeSA:
		return new(SecurityAssociation)
	case TypeKE:
		return new(KeyExchange)
	case TypeIDi:
		return new(IdentificationInitiator)
	case TypeIDr:
		return new(IdentificationResponder)
	case TypeCERT:
		return new(Certificate)
	case TypeCERTreq:
		return new(CertificateRequest)
	case TypeAUTH:
		return new(Authentication)
	case TypeNiNr:
		return new(Nonce)
	case TypeN:
		return new(Notification)
	case TypeD:
		return new(Delete)
	case TypeV:
		return new(VendorID)
	case TypeTSi:
		return new(TrafficSelectorInitiator)
	case TypeTSr:
		return new(TrafficSelectorResponder)
	case TypeSK:
		return new(Encrypted)
	case TypeCP:
		return new(Configuration)
	case TypeEAP:
		return NewPayloadEap()
	}
	panic("vNewPayload")
}

// HStableBody (C12): for an arbitrary body of length Param(1) of payload kind Param(0):
// decode ok and re-encode ok  =>  the re-encoding decodes to an equal payload and encodes to itself.
func HStableBody() {
	kind, n := vr.Param(0), vr.Param(1)
	b := vr.Input(n)
	p1 := vNewPayload(kind)
	if err := p1.Unmarshal(b); err != nil {
		vr.Cover("c12.body.rejected")
		return
	}
	b2, err := p1.Marshal()
	if err != nil {
		vr.Cover("c12.body.not-encodable")
		return
	}
	vr.Cover("c12.body.reencoded")
	vr.Output("c12.body.reencoding", b2) // translation validation of decoder + encoder on arbitrary accepted input
	p2 := vNewPayload(kind)
	err = p2.Unmarshal(b2)
	vr.Assert("c12.redecode.ok", err == nil)
	if err != nil {
		return
	}
	vr.Assert("c12.equal", VEqPayload(p1, p2))
	b3, err := p2.Marshal()
	vr.Assert("c12.reencode.ok", err == nil)
	if err == nil {
		vr.Assert("c12.fixpoint", vr.EqBytes(b2, b3))
	}
}

// HStableMessage (C12): the same for whole datagrams of length Param(0) (chains including unsupported
// payloads, which the decoder drops).
func HStableMessage() {
	b := vr.Input(vr.Param(0))
	m1 := new(IKEMessage)
	if err := m1.Decode(b); err != nil {
		vr.Cover("c12.msg.rejected")
		return
	}
	b2, err := m1.Encode()
	if err != nil {
		vr.Cover("c12.msg.not-encodable")
		return
	}
	vr.Cover("c12.msg.reencoded")
	vr.Output("c12.msg.reencoding", b2)
	m2 := new(IKEMessage)
	err = m2.Decode(b2)
	vr.Assert("c12.redecode.ok", err == nil)
	if err != nil {
		return
	}
	vr.Assert("c12.equal", VEqMessage(m1, m2))
	b3, err := m2.Encode()
	vr.Assert("c12.reencode.ok", err == nil)
	if err == nil {
		vr.Assert("c12.fixpoint", vr.EqBytes(b2, b3))
	}
}

// HCanonicalIdentity (C12): a canonical datagram of the independent encoder (zero reserved bits, no
// unsupported payloads, exact lengths, transforms grouped by ascending type) is re-encoded
// byte-identically.  Params: tier, payload kinds..., 0.
func HCanonicalIdentity() {
	m := VGenMessage(1, vr.Param(0))
	b := VRefEncode(m, false, 0)
	d := new(IKEMessage)
	err := d.Decode(b)
	vr.Assert("c12.canonical.decode", err == nil)
	if err != nil {
		return
	}
	b2, err := d.Encode()
	vr.Assert("c12.canonical.encode", err == nil)
	if err == nil {
		vr.Assert("c12.canonical", vr.EqBytes(b, b2))
	}
}

// HStableLiberal (C12): stability on datagrams larger than the arbitrary-bytes bound - datagrams of the
// independent encoder using the sender's liberties (arbitrary reserved fields and flags, transforms in
// another order): what the library decodes from them re-encodes, and the re-encoding decodes to an
// equal message and is a fixed point.  Params: tier, perm (0..2), payload kinds..., 0.
func HStableLiberal() {
	m := VGenMessage(2, vr.Param(0))
	b := VRefEncode(m, true, vr.Param(1))
	m1 := new(IKEMessage)
	if err := m1.Decode(b); err != nil {
		vr.Assert("c12.liberal.decode", false)
		return
	}
	b2, err := m1.Encode()
	vr.Assert("c12.liberal.encode", err == nil)
	if err != nil {
		return
	}
	m2 := new(IKEMessage)
	err = m2.Decode(b2)
	vr.Assert("c12.redecode.ok", err == nil)
	if err != nil {
		return
	}
	vr.Assert("c12.equal", VEqMessage(m1, m2))
	b3, err := m2.Encode()
	vr.Assert("c12.reencode.ok", err == nil)
	if err == nil {
		vr.Assert("c12.fixpoint", vr.EqBytes(b2, b3))
	}
}

// HStableForeignSA (C12): an SA payload of an independent encoder with Param(0) transforms of arbitrary
// types - the library files the five it knows and drops the others - is stable under re-encoding: the
// re-encoding decodes to an equal payload and encodes to itself.
func HStableForeignSA() {
	n := vr.Param(0)
	p := &VRefProposal{Number: vr.U8(), Protocol: vr.U8()}
	for i := 0; i < n; i++ {
		p.Transforms = append(p.Transforms, VGenTransform(vr.U8(), vr.IntIn(0, 1)))
	}
	b := vRefSABody([]*VRefProposal{p}, false)
	p1 := new(SecurityAssociation)
	if err := p1.Unmarshal(b); err != nil {
		vr.Assert("c12.foreign-sa.decode", false)
		return
	}
	b2, err := p1.Marshal()
	if err != nil {
		vr.Cover("c12.foreign-sa.not-encodable") // e.g. nothing but dropped transforms: outside the property's premise
		return
	}
	vr.Cover("c12.foreign-sa.reencoded")
	p2 := new(SecurityAssociation)
	err = p2.Unmarshal(b2)
	vr.Assert("c12.redecode.ok", err == nil)
	if err != nil {
		return
	}
	vr.Assert("c12.equal", VEqPayload(p1, p2))
	b3, err := p2.Marshal()
	vr.Assert("c12.reencode.ok", err == nil)
	if err == nil {
		vr.Assert("c12.fixpoint", vr.EqBytes(b2, b3))
	}
}
