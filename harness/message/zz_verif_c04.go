package message

import (
	vr "github.com/free5gc/ike/internal/verifrt"
)

// C04: every payload body decoder on an arbitrary buffer of length Param(1).
// Param(0) selects the decoder.
func HDecodeBody() {
	kind := vr.Param(0)
	n := vr.Param(1)
	b := vr.Input(n)
	var p IKEPayload
	switch kind {
	case 33:
		p = new(SecurityAssociation)
	case 34:
		p = new(KeyExchange)
	case 35:
		p = new(IdentificationInitiator)
	case 36:
		p = new(IdentificationResponder)
	case 37:
		p = new(Certificate)
	case 38:
		p = new(CertificateRequest)
	case 39:
		p = new(Authentication)
	case 40:
		p = new(Nonce)
	case 41:
		p = new(Notification)
	case 42:
		p = new(Delete)
	case 43:
		p = new(VendorID)
	case 44:
		p = new(TrafficSelectorInitiator)
	case 45:
		p = new(TrafficSelectorResponder)
	case 46:
		p = new(Encrypted)
	case 47:
		p = new(Configuration)
	case 48:
		p = NewPayloadEap()
	}
	before := append([]byte{}, b...)
	err := p.Unmarshal(b)
	// read-only use of the input: a decoder does not write into the buffer it is given (C18)
	vr.Assert("c04.input-unchanged", vr.EqBytes(b, before))
	if err == nil {
		vr.Cover("c04.body.accepted")
	} else {
		vr.Cover("c04.body.rejected")
	}
}

// HParseHeader (C04): ParseHeader on an arbitrary buffer of length Param(0).
func HParseHeader() {
	b := vr.Input(vr.Param(0))
	h, err := ParseHeader(b)
	if err == nil {
		vr.Assert("c04.header.nonnil", h != nil)
		vr.Cover("c04.header.accepted")
	} else {
		vr.Cover("c04.header.rejected")
	}
}

// HDecodeMessage (C04): whole-message Decode on an arbitrary buffer of length Param(0).
func HDecodeMessage() {
	b := vr.Input(vr.Param(0))
	m := new(IKEMessage)
	before := append([]byte{}, b...)
	err := m.Decode(b)
	vr.Assert("c04.input-unchanged", vr.EqBytes(b, before))
	if err == nil {
		vr.Cover("c04.message.accepted")
	} else {
		vr.Cover("c04.message.rejected")
	}
}

// HDecodeChain (C04): the payload chain walker with an arbitrary first payload type on an arbitrary
// buffer of length Param(0).
func HDecodeChain() {
	b := vr.Input(vr.Param(0))
	var c IKEPayloadContainer
	if err := c.Decode(vr.U8(), b); err == nil {
		vr.Cover("c04.chain.accepted")
	} else {
		vr.Cover("c04.chain.rejected")
	}
}
