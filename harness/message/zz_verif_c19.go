package message

import (
	eap_message "github.com/free5gc/ike/eap"
	vr "github.com/free5gc/ike/internal/verifrt"
)

// vPrior builds a container with Param-selected earlier payloads (0..2) at the fixed minimal shape and
// returns it with a deep snapshot and the frame token over the earlier payload objects.
func vPrior(k int) (IKEPayloadContainer, IKEPayloadContainer, IKEPayloadContainer, int) {
	var c IKEPayloadContainer
	kinds := []int{33, 48}
	for i := 0; i < k; i++ {
		c = append(c, VGenPayload(kinds[i], -1))
	}
	objs := append(IKEPayloadContainer{}, c...)
	return c, objs, VClonePayloads(c), vr.FrameBegin(objs)
}

// vOneAppended: exactly one payload was appended and the earlier ones are the same objects, untouched.
func vOneAppended(c, objs, snap IKEPayloadContainer, tok int) bool {
	if len(c) != len(objs)+1 {
		return false
	}
	ok := true
	for i := range objs {
		ok = vr.All(ok, c[i] == objs[i])
	}
	return vr.All(ok, vr.FrameUnchanged(tok), VEqPayloadsExact(snap, objs))
}

// HNewHeader (C19): version 2.0, the given SPIs / exchange type / message id, exactly the flag bits
// requested, reported back by the accessors; NewMessage the same plus the payload list.
func HNewHeader() {
	si, sr, ex, mid := vr.U64(), vr.U64(), vr.U8(), vr.U32()
	resp, init := vr.Bool(), vr.Bool()
	np := vr.U8()
	pb := vr.Bytes(vr.IntOf(0, 3))
	h := NewHeader(si, sr, ex, resp, init, mid, np, pb)
	want := uint8(0)
	if resp {
		want |= 0x20
	}
	if init {
		want |= 0x08
	}
	vr.Assert("c19.header.fields", vr.All(h.InitiatorSPI == si, h.ResponderSPI == sr, h.ExchangeType == ex, h.MessageID == mid,
		h.MajorVersion == 2, h.MinorVersion == 0, h.NextPayload == np, vr.EqBytes(h.PayloadBytes, pb)))
	vr.Assert("c19.header.flags", h.Flags == want)
	vr.Assert("c19.header.accessors", h.IsResponse() == resp && h.IsInitiator() == init)
	c, objs, snap, tok := vPrior(vr.Param(0))
	m := NewMessage(si, sr, ex, resp, init, mid, c)
	vr.Assert("c19.message.fields", vr.All(m.InitiatorSPI == si, m.ResponderSPI == sr, m.ExchangeType == ex, m.MessageID == mid,
		m.MajorVersion == 2, m.MinorVersion == 0, m.Flags == want, m.IsResponse() == resp, m.IsInitiator() == init))
	vr.Assert("c19.message.payloads", len(m.Payloads) == len(objs) && vr.FrameUnchanged(tok) && VEqPayloadsExact(snap, m.Payloads))
	// the flag accessors read exactly bits 0x20 / 0x08 of an arbitrary flags octet
	g := &IKEHeader{Flags: vr.U8()}
	vr.Assert("c19.header.accessor-bits", g.IsResponse() == (g.Flags&0x20 != 0) && g.IsInitiator() == (g.Flags&0x08 != 0))
}

// HBuild (C19): each container builder appends exactly one payload whose fields equal its arguments
// and leaves earlier payloads untouched.  Params: builder index, number of earlier payloads, data length.
func HBuild() {
	which, k, n := vr.Param(0), vr.Param(1), vr.Param(2)
	c, objs, snap, tok := vPrior(k)
	a8, b8, a16 := vr.U8(), vr.U8(), vr.U16()
	d1, d2 := vr.Bytes(n), vr.Bytes(vr.IntOf(0, 4))
	var want IKEPayload
	switch which {
	case 0:
		c.BuildNotification(a8, a16, d2, d1)
		want = &Notification{ProtocolID: a8, NotifyMessageType: a16, SPI: d2, NotificationData: d1}
	case 1:
		c.BuildCertificate(a8, d1)
		want = &Certificate{CertificateEncoding: a8, CertificateData: d1}
	case 2:
		r := c.BuildEncrypted(IkePayloadType(a8), d1)
		want = &Encrypted{NextPayload: a8, EncryptedData: d1}
		vr.Assert("c19.returned", len(c) > 0 && IKEPayload(r) == c[len(c)-1])
	case 3:
		c.BUildKeyExchange(a16, d1)
		want = &KeyExchange{DiffieHellmanGroup: a16, KeyExchangeData: d1}
	case 4:
		c.BuildIdentificationInitiator(a8, d1)
		want = &IdentificationInitiator{IDType: a8, IDData: d1}
	case 5:
		c.BuildIdentificationResponder(a8, d1)
		want = &IdentificationResponder{IDType: a8, IDData: d1}
	case 6:
		c.BuildAuthentication(a8, d1)
		want = &Authentication{AuthenticationMethod: a8, AuthenticationData: d1}
	case 7:
		r := c.BuildConfiguration(a8)
		r.ConfigurationAttribute.BuildConfigurationAttribute(a16, d1)
		r.ConfigurationAttribute.BuildConfigurationAttribute(a16+1, d2)
		want = &Configuration{ConfigurationType: a8, ConfigurationAttribute: ConfigurationAttributeContainer{
			{Type: a16, Value: d1}, {Type: a16 + 1, Value: d2}}}
		vr.Assert("c19.returned", len(c) > 0 && IKEPayload(r) == c[len(c)-1])
	case 8:
		c.BuildNonce(d1)
		want = &Nonce{NonceData: d1}
	case 9, 10:
		sp, ep := vr.U16(), vr.U16()
		ts := IndividualTrafficSelectorContainer{
			{TSType: TS_IPV4_ADDR_RANGE, IPProtocolID: b8, StartPort: sp, EndPort: ep, StartAddress: vr.Bytes(4), EndAddress: vr.Bytes(4)},
			{TSType: TS_IPV6_ADDR_RANGE, IPProtocolID: a8, StartPort: ep, EndPort: sp, StartAddress: vr.Bytes(16), EndAddress: vr.Bytes(16)}}
		if which == 9 {
			r := c.BuildTrafficSelectorInitiator()
			for _, s := range ts {
				r.TrafficSelectors.BuildIndividualTrafficSelector(s.TSType, s.IPProtocolID, s.StartPort, s.EndPort, s.StartAddress, s.EndAddress)
			}
			want = &TrafficSelectorInitiator{TrafficSelectors: ts}
		} else {
			r := c.BuildTrafficSelectorResponder()
			for _, s := range ts {
				r.TrafficSelectors.BuildIndividualTrafficSelector(s.TSType, s.IPProtocolID, s.StartPort, s.EndPort, s.StartAddress, s.EndAddress)
			}
			want = &TrafficSelectorResponder{TrafficSelectors: ts}
		}
	case 11:
		r := c.BuildSecurityAssociation()
		p := r.Proposals.BuildProposal(a8, b8, d2)
		at, av := vr.U16(), vr.U16()
		p.EncryptionAlgorithm.BuildTransform(1, a16, &at, &av, nil)          // TV
		p.IntegrityAlgorithm.BuildTransform(3, a16+1, nil, nil, nil)         // no attribute
		p.PseudorandomFunction.BuildTransform(2, a16+2, &at, nil, d1)        // TLV (n >= 1), dropped when n == 0
		p2 := r.Proposals.BuildProposal(b8, a8, nil)
		p2.DiffieHellmanGroup.BuildTransform(4, av, nil, nil, nil)
		wp := &Proposal{ProposalNumber: a8, ProtocolID: b8, SPI: d2,
			EncryptionAlgorithm: TransformContainer{{TransformType: 1, TransformID: a16, AttributePresent: true, AttributeFormat: AttributeFormatUseTV, AttributeType: at, AttributeValue: av}},
			IntegrityAlgorithm:  TransformContainer{{TransformType: 3, TransformID: a16 + 1}}}
		if n > 0 {
			wp.PseudorandomFunction = TransformContainer{{TransformType: 2, TransformID: a16 + 2, AttributePresent: true, AttributeFormat: AttributeFormatUseTLV, AttributeType: at, VariableLengthAttributeValue: d1}}
		}
		want = &SecurityAssociation{Proposals: ProposalContainer{wp,
			{ProposalNumber: b8, ProtocolID: a8, DiffieHellmanGroup: TransformContainer{{TransformType: 4, TransformID: av}}}}}
	case 12:
		spis := []uint32{vr.U32(), vr.U32()}
		c.BuildDeletePayload(a8, 4, 2, spis)
		want = &Delete{ProtocolID: a8, SPISize: 4, NumberOfSPI: 2, SPIs: spis}
	case 13:
		r := c.BuildEAP(eap_message.EapCode(a8), b8)
		want = &PayloadEap{EAP: &eap_message.EAP{Code: eap_message.EapCode(a8), Identifier: b8}}
		vr.Assert("c19.returned", len(c) > 0 && IKEPayload(r) == c[len(c)-1])
	case 14:
		c.BuildEAPSuccess(b8)
		want = &PayloadEap{EAP: &eap_message.EAP{Code: eap_message.EapCodeSuccess, Identifier: b8}}
	case 15:
		c.BuildEAPfailure(b8)
		want = &PayloadEap{EAP: &eap_message.EAP{Code: eap_message.EapCodeFailure, Identifier: b8}}
	case 16:
		// EAP-5G Start (TS 24.502 9.3.2): Request, Expanded, vendor 10415, type 3, message id 1, spare 0
		c.BuildEAP5GStart(b8)
		want = &PayloadEap{EAP: &eap_message.EAP{Code: eap_message.EapCodeRequest, Identifier: b8,
			EapTypeData: &eap_message.EapExpanded{VendorID: 10415, VendorType: 3, VendorData: []byte{1, 0}}}}
	}
	if enc, err := c.Encode(); err == nil {
		vr.Output("c19.container-encoding", enc)
	}
	vr.Assert("c19.one-appended", vOneAppended(c, objs, snap, tok))
	if len(c) == len(objs)+1 {
		vr.Assert("c19.fields", VEqPayload(want, c[len(c)-1]))
	}
	// BuildEapExpanded
	x := BuildEapExpanded(vr.U32(), vr.U32(), d1)
	vr.Assert("c19.eapexpanded", x != nil && vr.EqBytes(x.VendorData, d1))
}

// HBuild3GPP (C19): EAP-5G NAS, 5G_QOS_INFO, NAS/UP IPv4 address and NAS TCP port notifies emit the
// TS 24.502 layouts; oversize arguments give an error, not a truncated field.
// Params: builder (0 EAP-5G NAS, 1 QOS_INFO, 2 NAS_IP4, 3 UP_IP4, 4 TCP port), earlier payloads, size, flags.
func HBuild3GPP() {
	which, k, n, fl := vr.Param(0), vr.Param(1), vr.Param(2), vr.Param(3)
	c, objs, snap, tok := vPrior(k)
	id := vr.U8()
	switch which {
	case 0:
		// n = NAS PDU length.  Content of large PDUs is zero (only the length handling is of interest there).
		var pdu []byte
		if n <= 64 {
			pdu = vr.Bytes(n)
		} else {
			pdu = make([]byte, n)
		}
		err := c.BuildEAP5GNAS(id, pdu)
		if n == 0 || n > 65535 {
			vr.Assert("c19.limit.nas", err != nil && len(c) == len(objs))
			return
		}
		vr.Assert("c19.nas.noerr", err == nil)
		vr.Assert("c19.one-appended", vOneAppended(c, objs, snap, tok))
		if err != nil || len(c) != len(objs)+1 {
			return
		}
		p, ok := c[len(c)-1].(*PayloadEap)
		vr.Assert("c19.nas.type", ok)
		if !ok {
			return
		}
		x, ok := p.EapTypeData.(*eap_message.EapExpanded)
		vr.Assert("c19.nas.expanded", ok && p.Code == eap_message.EapCodeRequest && p.Identifier == id)
		if !ok {
			return
		}
		// vendor 10415, type 3, message id 2, spare 0, 16-bit NAS length, NAS PDU
		d := x.VendorData
		vr.Assert("c19.nas.layout", x.VendorID == 10415 && x.VendorType == 3 && len(d) == 4+n &&
			d[0] == 2 && d[1] == 0 && int(d[2])<<8|int(d[3]) == n)
		if len(d) == 4+n && n <= 64 {
			vr.Assert("c19.nas.pdu", vr.EqBytes(d[4:], pdu))
		}
	case 1:
		// n = number of QFIs; fl bit 0: default (DCSI), bit 1: DSCP specified
		var qfi []byte
		if n <= 16 {
			qfi = vr.Bytes(n)
		} else {
			qfi = make([]byte, n)
		}
		sess, dscp := vr.U8(), vr.U8()
		isDef, isDSCP := fl&1 != 0, fl&2 != 0
		err := c.BuildNotify5G_QOS_INFO(sess, qfi, isDef, isDSCP, dscp)
		total := 1 + 1 + 1 + n + 1
		if isDSCP {
			total++
		}
		if n > 255 || total > 255 {
			vr.Assert("c19.limit.qos", err != nil && len(c) == len(objs))
			return
		}
		vr.Assert("c19.qos.noerr", err == nil)
		vr.Assert("c19.one-appended", vOneAppended(c, objs, snap, tok))
		if err != nil || len(c) != len(objs)+1 {
			return
		}
		nt, ok := c[len(c)-1].(*Notification)
		vr.Assert("c19.qos.type", ok)
		if !ok {
			return
		}
		d := nt.NotificationData
		vr.Assert("c19.qos.notify", nt.ProtocolID == 0 && nt.NotifyMessageType == 55501 && len(nt.SPI) == 0 && len(d) == total)
		if len(d) != total {
			return
		}
		wantFlags := uint8(0)
		if isDef {
			wantFlags |= 0x02
		}
		if isDSCP {
			wantFlags |= 0x01
		}
		// length (of the whole value, itself included), PDU session id, QFI count, QFIs, flags, optional DSCP
		vr.Assert("c19.qos.layout", int(d[0]) == total && d[1] == sess && int(d[2]) == n && d[3+n] == wantFlags)
		if n <= 16 {
			vr.Assert("c19.qos.qfis", vr.EqBytes(d[3:3+n], qfi))
		}
		if isDSCP {
			vr.Assert("c19.qos.dscp", d[4+n] == dscp)
		}
	case 2, 3:
		addr := []string{"10.0.0.1", "192.168.127.254", "255.255.255.255", "0.0.0.0"}[n%4]
		wantB := [][]byte{{10, 0, 0, 1}, {192, 168, 127, 254}, {255, 255, 255, 255}, {0, 0, 0, 0}}[n%4]
		typ := uint16(55502)
		if which == 2 {
			c.BuildNotifyNAS_IP4_ADDRESS(addr)
		} else {
			c.BuildNotifyUP_IP4_ADDRESS(addr)
			typ = 55504
		}
		vr.Assert("c19.one-appended", vOneAppended(c, objs, snap, tok))
		if len(c) != len(objs)+1 {
			return
		}
		nt, ok := c[len(c)-1].(*Notification)
		vr.Assert("c19.ip4.notify", ok && nt.ProtocolID == 0 && nt.NotifyMessageType == typ && len(nt.SPI) == 0 && vr.EqBytes(nt.NotificationData, wantB))
	case 4:
		port := vr.U16()
		vr.Assume(port != 0)
		c.BuildNotifyNAS_TCP_PORT(port)
		vr.Assert("c19.one-appended", vOneAppended(c, objs, snap, tok))
		if len(c) != len(objs)+1 {
			return
		}
		nt, ok := c[len(c)-1].(*Notification)
		vr.Assert("c19.port.notify", ok && nt.ProtocolID == 0 && nt.NotifyMessageType == 55506 && len(nt.SPI) == 0 &&
			len(nt.NotificationData) == 2 && nt.NotificationData[0] == uint8(port>>8) && nt.NotificationData[1] == uint8(port))
	}
}

// HBuildResets (C19): the Reset helpers empty their container and nothing else.
func HBuildResets() {
	c, _, _, _ := vPrior(2)
	c.Reset()
	vr.Assert("c19.reset.payloads", len(c) == 0)
	sa := vGenSA(-1, 0)
	sa.Proposals[0].EncryptionAlgorithm.Reset()
	vr.Assert("c19.reset.transforms", len(sa.Proposals[0].EncryptionAlgorithm) == 0)
	sa.Proposals.Reset()
	vr.Assert("c19.reset.proposals", len(sa.Proposals) == 0)
	ts := vGenTS(-1)
	ts.Reset()
	vr.Assert("c19.reset.ts", len(ts) == 0)
	var ca ConfigurationAttributeContainer
	ca.BuildConfigurationAttribute(1, nil)
	ca.Reset()
	vr.Assert("c19.reset.cp", len(ca) == 0)
}
