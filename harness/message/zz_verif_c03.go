package message

import (
	vr "github.com/free5gc/ike/internal/verifrt"
)

// HCodecRoundTrip (C03): Decode(Encode(m)) == m.  Param(0) = tier, Param(1..) = payload kinds, 0-terminated.
func HCodecRoundTrip() {
	tier := vr.Param(0)
	m := VGenMessage(1, tier)
	want := len(m.Payloads)
	b, err := m.Encode()
	if err == nil {
		vr.Output("c03.encoding", b) // translation validation: the engine's octets must equal the native ones
	}
	vr.Assert("c03.encode.noerr", err == nil)
	if err != nil {
		return
	}
	d := new(IKEMessage)
	err = d.Decode(b)
	vr.Assert("c03.decode.noerr", err == nil)
	if err != nil {
		return
	}
	vr.Assert("c03.header.equal", VEqHeader(m.IKEHeader, d.IKEHeader))
	vr.Assert("c03.count", len(d.Payloads) == want)
	if len(d.Payloads) != want {
		return
	}
	for i := range m.Payloads {
		vr.Assert("c03.equal."+VKindName(int(m.Payloads[i].Type())), VEqPayload(m.Payloads[i], d.Payloads[i]))
	}
}

// HBigCodec (C03): the upper end of the domain - one payload of kind Param(0) whose data field has
// Param(1) octets: while the payload fits the 16-bit length field it survives the round trip, beyond that
// Encode returns an error and never a wrapped length.
func HBigCodec() {
	kind := vr.Param(0)
	p := VGenPayload(kind, 1000+vr.Param(1)) // the data field has Param(1) octets
	m := &IKEMessage{IKEHeader: VGenHeader(), Payloads: IKEPayloadContainer{p}}
	body, berr := p.Marshal()
	b, err := m.Encode()
	if berr != nil || len(body)+4 > 65535 {
		vr.Assert("c03.big.oversize-is-an-error", err != nil)
		return
	}
	vr.Assert("c03.big.encode.noerr", err == nil)
	if err != nil {
		return
	}
	vr.Assert("c03.big.length-field", len(b) == 28+4+len(body) && int(b[30])<<8|int(b[31]) == 4+len(body))
	d := new(IKEMessage)
	err = d.Decode(b)
	vr.Assert("c03.big.decode.noerr", err == nil)
	if err != nil {
		return
	}
	vr.Assert("c03.big.equal", len(d.Payloads) == 1 && VEqPayload(p, d.Payloads[0]))
}
