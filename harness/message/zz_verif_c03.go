package message

import (
	vr "github.com/free5gc/ike/internal/verifrt"
)

// HCodecRoundTrip (C03): Decode(Encode(m)) == m.  Param(0) = tier, Param(1..) = payload kinds, 0-terminated.
func HCodecRoundTrip() {
	tier := vr.Param(0)
	m := VGenMessage(1, tier)
	want := len(m.Payloads)
	b, err := m.Encode()
	if err == nil {
		vr.Output("c03.encoding", b) // translation validation: the engine's octets must equal the native ones
	}
	vr.Assert("c03.encode.noerr", err == nil)
	if err != nil {
		return
	}
	d := new(IKEMessage)
	err = d.Decode(b)
	vr.Assert("c03.decode.noerr", err == nil)
	if err != nil {
		return
	}
	vr.Assert("c03.header.equal", VEqHeader(m.IKEHeader, d.IKEHeader))
	vr.Assert("c03.count", len(d.Payloads) == want)
	if len(d.Payloads) != want {
		return
	}
	for i := range m.Payloads {
		vr.Assert("c03.equal."+VKindName(int(m.Payloads[i].Type())), VEqPayload(m.Payloads[i], d.Payloads[i]))
	}
}
