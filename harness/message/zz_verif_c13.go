package message

import (
	vr "github.com/free5gc/ike/internal/verifrt"
)

func vUnsupportedType() uint8 {
	t := vr.U8()
	vr.Assume((t >= 1 && t <= 32) || t >= 49)
	return t
}

// HSkipUnsupported (C13).  Params: tier, mode, maxBody, payload kinds..., 0.
// mode 0: all inserted payloads non-critical => decodes exactly as the message without them
// mode 1: one inserted payload critical      => decoding fails
// mode 2: critical flag (and reserved bits) set on the implemented payloads only => ignored
// Insertion positions: every single position and every pair of positions (IntIn forks).
func HSkipUnsupported() {
	tier, mode, maxBody := vr.Param(0), vr.Param(1), vr.Param(2)
	m := VGenMessage(3, tier)
	var items []VItem
	for _, p := range m.Payloads {
		body, err := VBodyOf(p)
		vr.Assert("c13.base.marshal", err == nil)
		if err != nil {
			return
		}
		// critical flag and reserved bits on an implemented payload are arbitrary in every mode: they are
		// ignored wherever the payload stands, also in front of an unsupported one
		fl := vr.U8()
		items = append(items, VItem{Type: uint8(p.Type()), Flags: fl, Body: body})
	}
	n := len(items)
	var out []VItem
	if mode == 2 {
		out = items
	} else {
		// choose one or two insertion positions 0..n (second >= first)
		p1 := vr.IntIn(0, n)
		p2 := vr.IntIn(p1, n+1) // n+1 = no second insertion
		crit := -1
		if mode == 1 {
			if p2 <= n {
				crit = vr.IntIn(0, 1)
			} else {
				crit = 0
			}
		}
		k := 0
		for i := 0; i <= n; i++ {
			for _, pos := range []int{p1, p2} {
				if pos == i {
					fl := vr.U8() & 0x7f
					if k == crit {
						fl |= 0x80
					}
					var bl int
					if maxBody <= 8 {
						bl = vr.IntOf(0, 1, maxBody)
					} else {
						bl = vr.IntOf(0, 1, 8, maxBody)
					}
					out = append(out, VItem{Type: vUnsupportedType(), Flags: fl, Body: vr.Bytes(bl)})
					k++
				}
			}
			if i < n {
				out = append(out, items[i])
			}
		}
	}
	b := VAssemble(m.IKEHeader, out)
	d := new(IKEMessage)
	err := d.Decode(b)
	if mode == 1 {
		vr.Assert("c13.reject", err != nil)
		return
	}
	vr.Assert("c13.skip.noerr", err == nil)
	if err != nil {
		return
	}
	vr.Assert("c13.skip.header", VEqHeader(m.IKEHeader, d.IKEHeader))
	// the next-payload field of an Encrypted payload names whatever follows it on the wire: derived
	// bookkeeping, not part of the comparison
	if len(d.Payloads) == len(m.Payloads) {
		for i, p := range m.Payloads {
			if e, ok := p.(*Encrypted); ok {
				if de, ok := d.Payloads[i].(*Encrypted); ok {
					e.NextPayload = de.NextPayload
				}
			}
		}
	}
	if mode == 2 {
		vr.Assert("c13.ignore.equal", VEqPayloads(m.Payloads, d.Payloads))
	} else {
		vr.Assert("c13.skip.equal", VEqPayloads(m.Payloads, d.Payloads))
	}
}
