package message

import (
	vr "github.com/free5gc/ike/internal/verifrt"
)

// HDecodeOwnsData (C20): after Decode(b), overwriting b (including its spare capacity) leaves every
// payload field unchanged.  Params: tier, payload kinds..., 0.
func HDecodeOwnsData() {
	m := VGenMessage(1, vr.Param(0))
	enc, err := m.Encode()
	vr.Assert("c20.encode.noerr", err == nil)
	if err != nil {
		return
	}
	// receive buffer with spare capacity behind the datagram
	buf := make([]byte, len(enc), len(enc)+8)
	copy(buf, enc)
	d := new(IKEMessage)
	err = d.Decode(buf)
	vr.Assert("c20.decode.noerr", err == nil)
	if err != nil {
		return
	}
	snap := VCloneMessage(d)
	vr.Havoc(buf)
	vr.Assert("c20.noalias.header", VEqHeader(snap.IKEHeader, d.IKEHeader))
	vr.Assert("c20.noalias", VEqPayloads(snap.Payloads, d.Payloads))
	// the decoded value is still the message that was sent
	vr.Assert("c20.noalias.value", VEqPayloads(m.Payloads, d.Payloads))
}

// HDecodeOwnsDataArbitrary (C20): the same for every accepted byte string of length Param(0):
// the re-encoding of the decoded message is the same before and after the receive buffer is overwritten.
func HDecodeOwnsDataArbitrary() {
	b := vr.Input(vr.Param(0))
	d := new(IKEMessage)
	if err := d.Decode(b); err != nil {
		vr.Cover("c20.arb.rejected")
		return
	}
	vr.Cover("c20.arb.accepted")
	e1, err1 := d.Payloads.Encode()
	vr.Havoc(b)
	e2, err2 := d.Payloads.Encode()
	vr.Assert("c20.arb.same-error", (err1 == nil) == (err2 == nil))
	if err1 == nil && err2 == nil {
		vr.Assert("c20.arb.noalias", vr.EqBytes(e1, e2))
	}
}

// HEncodePure (C20): Encode does not alter any payload, returns a buffer the message does not
// reference, and is deterministic.  Params: tier, payload kinds..., 0.
func HEncodePure() {
	m := VGenMessage(1, vr.Param(0))
	snap := VCloneMessage(m)
	// frame condition: nothing reachable from the payload list (any field, exported or not) is written
	tok := vr.FrameBegin(m.Payloads)
	b1, err := m.Encode()
	vr.Assert("c20.encode.noerr", err == nil)
	if err != nil {
		return
	}
	vr.Assert("c20.encode-writes-no-payload-state", vr.FrameUnchanged(tok))
	vr.Assert("c20.msg-unchanged", vr.All(VEqHeader(snap.IKEHeader, m.IKEHeader), VEqPayloadsExact(snap.Payloads, m.Payloads)))
	keep := append([]byte{}, b1...)
	pb := append([]byte{}, m.IKEHeader.PayloadBytes...)
	vr.Havoc(b1)
	vr.Assert("c20.buf-unreferenced", vr.All(VEqHeader(snap.IKEHeader, m.IKEHeader), VEqPayloadsExact(snap.Payloads, m.Payloads)))
	// nor does the header's cached payload encoding live in the returned buffer
	vr.Assert("c20.buf-unreferenced.header-cache", vr.EqBytes(pb, m.IKEHeader.PayloadBytes))
	b2, err := m.Encode()
	vr.Assert("c20.encode2.noerr", err == nil)
	if err != nil {
		return
	}
	vr.Assert("c20.deterministic", vr.EqBytes(keep, b2))
	vr.Assert("c20.msg-unchanged-2", VEqPayloadsExact(snap.Payloads, m.Payloads))
}

// HEncodeSharedContainers (C20): the transform containers of a proposal may be views of arrays somebody
// else holds as well (a responder's chosen proposal built as offered.X[:1], two proposals of one SA
// sharing a list): encoding writes into none of them.  Param: 0 = both proposals in the encoded SA,
// 1 = only the chosen one (the offered proposal stays with the caller).
func HEncodeSharedContainers() {
	offered := &Proposal{ProposalNumber: 1, ProtocolID: vr.U8()}
	for _, tt := range []uint8{TypeEncryptionAlgorithm, TypePseudorandomFunction, TypeIntegrityAlgorithm, TypeDiffieHellmanGroup, TypeExtendedSequenceNumbers} {
		vFile(offered, VGenTransform(tt, 1))
		vFile(offered, VGenTransform(tt, 0))
	}
	chosen := &Proposal{ProposalNumber: 2, ProtocolID: offered.ProtocolID}
	chosen.EncryptionAlgorithm = offered.EncryptionAlgorithm[:1]
	chosen.PseudorandomFunction = offered.PseudorandomFunction[:1]
	chosen.IntegrityAlgorithm = offered.IntegrityAlgorithm[:1]
	chosen.DiffieHellmanGroup = offered.DiffieHellmanGroup[:1]
	chosen.ExtendedSequenceNumbers = offered.ExtendedSequenceNumbers[:1]
	sa := &SecurityAssociation{}
	if vr.Param(0) == 0 {
		sa.Proposals = ProposalContainer{offered, chosen}
	} else {
		sa.Proposals = ProposalContainer{chosen}
	}
	m := &IKEMessage{IKEHeader: VGenHeader(), Payloads: IKEPayloadContainer{sa}}
	snap := VCloneMessage(m)
	keepOffered := VCloneMessage(&IKEMessage{IKEHeader: m.IKEHeader, Payloads: IKEPayloadContainer{&SecurityAssociation{Proposals: ProposalContainer{offered}}}})
	tok := vr.FrameBegin(offered)
	b1, err := m.Encode()
	vr.Assert("c20.shared.encode.noerr", err == nil)
	if err != nil {
		return
	}
	vr.Assert("c20.shared.offered-not-written", vr.FrameUnchanged(tok))
	vr.Assert("c20.shared.offered-unchanged", vEqProposal(keepOffered.Payloads[0].(*SecurityAssociation).Proposals[0], offered))
	vr.Assert("c20.shared.msg-unchanged", VEqPayloadsExact(snap.Payloads, m.Payloads))
	b2, err := m.Encode()
	vr.Assert("c20.shared.encode2.noerr", err == nil)
	if err == nil {
		vr.Assert("c20.shared.deterministic", vr.EqBytes(b1, b2))
	}
}

// HDecodeOwnsDataEntryPoints (C20): the same through the other ways into the decoders - a caller-parsed
// header plus DecodePayload, the payload container on its own, and a payload's own Unmarshal.
// Params: entry (1 ParseHeader + DecodePayload, 2 container, 3 payload), tier, payload kind, 0.
func HDecodeOwnsDataEntryPoints() {
	entry := vr.Param(0)
	m := VGenMessage(2, vr.Param(1))
	enc, err := m.Encode()
	vr.Assert("c20.entry.encode.noerr", err == nil)
	if err != nil || len(m.Payloads) != 1 {
		return
	}
	buf := make([]byte, len(enc), len(enc)+8)
	copy(buf, enc)
	var got IKEPayloadContainer
	switch entry {
	case 1:
		h, err := ParseHeader(buf)
		vr.Assert("c20.entry.header.noerr", err == nil)
		if err != nil {
			return
		}
		d := &IKEMessage{IKEHeader: h}
		err = d.DecodePayload(buf[IKE_HEADER_LEN:])
		vr.Assert("c20.entry.decode.noerr", err == nil)
		got = d.Payloads
	case 2:
		err = got.Decode(buf[16], buf[IKE_HEADER_LEN:])
		vr.Assert("c20.entry.decode.noerr", err == nil)
	default:
		p := vNewPayload(int(buf[16]))
		err = p.Unmarshal(buf[IKE_HEADER_LEN+4:])
		vr.Assert("c20.entry.decode.noerr", err == nil)
		got = IKEPayloadContainer{p}
	}
	if err != nil {
		return
	}
	snap := VClonePayloads(got)
	vr.Havoc(buf)
	vr.Assert("c20.entry.noalias", VEqPayloads(snap, got))
	vr.Assert("c20.entry.value", VEqPayloads(m.Payloads, got))
}
