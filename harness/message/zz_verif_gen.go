package message

import (
	eap_message "github.com/free5gc/ike/eap"
	vr "github.com/free5gc/ike/internal/verifrt"
)

// ---------------------------------------------------------------------------------------------
// Encodable-domain generator and field-by-field comparators (DESIGN.md 3.2, 3.4), shared by C01,
// C03, C05, C06, C13, C20.  Shapes (counts, lengths, attribute forms) are concrete per path, forked
// by IntIn/IntOf; all field values are symbolic, so one path decides a shape for all values.
//
// tier 0: minimal (one or two shapes per payload kind; used in products with suites / roles)
// tier 1: quick
// tier 2: thorough

func vDataLen(tier, min int) int {
	if tier < 0 {
		return 2
	}
	switch tier {
	case 0:
		return vr.IntOf(min, 3)
	case 1:
		return vr.IntOf(min, min+1, 6)
	}
	return vr.IntOf(min, min+1, 2, 3, 4, 5, 8, 16, 17, 24)
}

func vSPILen(tier int) int {
	if tier < 0 {
		return 4
	}
	switch tier {
	case 0:
		return vr.IntOf(0, 4)
	case 1:
		return vr.IntOf(0, 4, 255)
	}
	return vr.IntOf(0, 1, 4, 8, 247, 248, 255)
}

// VGenTransform builds a transform of the given type; form 0 = no attribute, 1 = TV, 2.. = TLV with
// form-1 value octets.  Attribute type < 2^15.
func VGenTransform(ttype uint8, form int) *Transform {
	t := &Transform{TransformType: ttype, TransformID: vr.U16()}
	if form == 0 {
		return t
	}
	t.AttributePresent = true
	t.AttributeType = vr.U16() & 0x7fff
	if form == 1 {
		t.AttributeFormat = AttributeFormatUseTV
		t.AttributeValue = vr.U16()
	} else {
		t.AttributeFormat = AttributeFormatUseTLV
		t.VariableLengthAttributeValue = vr.Bytes(form - 1)
	}
	return t
}

func vFile(p *Proposal, t *Transform) {
	switch t.TransformType {
	case TypeEncryptionAlgorithm:
		p.EncryptionAlgorithm = append(p.EncryptionAlgorithm, t)
	case TypePseudorandomFunction:
		p.PseudorandomFunction = append(p.PseudorandomFunction, t)
	case TypeIntegrityAlgorithm:
		p.IntegrityAlgorithm = append(p.IntegrityAlgorithm, t)
	case TypeDiffieHellmanGroup:
		p.DiffieHellmanGroup = append(p.DiffieHellmanGroup, t)
	case TypeExtendedSequenceNumbers:
		p.ExtendedSequenceNumbers = append(p.ExtendedSequenceNumbers, t)
	}
}

// slice > 0 fixes the type of the first transform of the first proposal (the shape space of the
// thorough tier is split over five jobs this way).
func vGenProposal(tier int, first bool, slice int) *Proposal {
	p := &Proposal{ProposalNumber: vr.U8(), ProtocolID: vr.U8()}
	spi := 0
	if first {
		spi = vSPILen(tier)
	} else {
		spi = vr.IntOf(0, 4)
	}
	if spi > 0 {
		p.SPI = vr.Bytes(spi)
	}
	nt := 1
	if first {
		switch tier {
		case 0:
			nt = 1
		case 1:
			nt = vr.IntIn(1, 2)
		default:
			nt = vr.IntIn(1, 3)
		}
	}
	for i := 0; i < nt; i++ {
		var ttype uint8
		var form int
		if tier < 0 {
			ttype, form = 1, 1
		} else if i == 0 && first {
			if slice > 0 {
				ttype = uint8(slice)
			} else {
				ttype = uint8(vr.IntIn(1, 5))
			}
			if tier == 0 {
				form = vr.IntOf(1, 2)
			} else {
				form = vr.IntOf(0, 1, 2, 3, 4)
			}
		} else {
			// later transforms: transforms are marshalled grouped by type, so the wire order differs
			// from the build order unless types ascend; both cases are covered
			if tier >= 2 && first {
				ttype = uint8(vr.IntOf(1, 3, 5))
				form = vr.IntOf(0, 1, 3)
			} else {
				ttype = uint8(vr.IntOf(1, 5))
				form = vr.IntOf(0, 1)
			}
		}
		vFile(p, VGenTransform(ttype, form))
	}
	return p
}

func vGenSA(tier int, slice int) *SecurityAssociation {
	sa := new(SecurityAssociation)
	np := 1
	if tier >= 1 {
		np = vr.IntIn(1, 2)
	}
	for i := 0; i < np; i++ {
		sa.Proposals = append(sa.Proposals, vGenProposal(tier, i == 0, slice))
	}
	return sa
}

func vGenTS(tier int) IndividualTrafficSelectorContainer {
	var c IndividualTrafficSelectorContainer
	n := 1
	switch tier {
	case 1:
		n = vr.IntIn(1, 2)
	case 2:
		n = vr.IntIn(1, 3)
	case 7:
		n = 255 // the largest selector count the one-octet field can state (types alternate)
	}
	for i := 0; i < n; i++ {
		ts := &IndividualTrafficSelector{IPProtocolID: vr.U8(), StartPort: vr.U16(), EndPort: vr.U16()}
		if tier < 0 || (tier == 7 && i%2 == 0) || (tier != 7 && vr.IntIn(0, 1) == 0) {
			ts.TSType = TS_IPV4_ADDR_RANGE
			ts.StartAddress, ts.EndAddress = vr.Bytes(4), vr.Bytes(4)
		} else {
			ts.TSType = TS_IPV6_ADDR_RANGE
			ts.StartAddress, ts.EndAddress = vr.Bytes(16), vr.Bytes(16)
		}
		c = append(c, ts)
	}
	return c
}

// VEapMethods lists the EAP shapes (method, AKA' attribute mask) used inside IKE messages.
func vGenEAPPayload(tier int) *PayloadEap {
	var e *eap_message.EAP
	if tier < 0 {
		return &PayloadEap{EAP: eap_message.VGenEAP(50, 1|16, -1)}
	}
	switch tier {
	case 0:
		switch vr.IntIn(0, 2) {
		case 0:
			e = eap_message.VGenEAP(0, 0, 0)
		case 1:
			e = eap_message.VGenEAP(254, 0, 0)
		default:
			e = eap_message.VGenEAP(50, 1|16, 0) // AT_RAND, AT_KDF
		}
	default:
		switch vr.IntIn(0, 6) {
		case 0:
			e = eap_message.VGenEAP(0, 0, tier-1)
		case 1:
			e = eap_message.VGenEAP(1, 0, tier-1)
		case 2:
			e = eap_message.VGenEAP(2, 0, tier-1)
		case 3:
			e = eap_message.VGenEAP(3, 0, tier-1)
		case 4:
			e = eap_message.VGenEAP(254, 0, tier-1)
		case 5:
			e = eap_message.VGenEAP(50, 1|2|8, tier-1) // AT_RAND, AT_AUTN, AT_MAC
		default:
			e = eap_message.VGenEAP(50, 4|16|32, tier-1) // AT_RES, AT_KDF, AT_KDF_INPUT
		}
	}
	return &PayloadEap{EAP: e}
}

// VGenPayload builds one payload of IKE payload type kind (33..48, not 46).
func VGenPayload(kind int, tier int) IKEPayload {
	// tier >= 1000: fixed shape with one data field of tier-1000 octets (the large end of the domain)
	big := -1
	if tier >= 1000 {
		big, tier = tier-1000, -1
	}
	dataLen := func(min int) int {
		if big >= 0 {
			return big
		}
		return vDataLen(tier, min)
	}
	slice := 0
	if tier >= 10 {
		slice, tier = tier/10, tier%10
	}
	switch IkePayloadType(kind) {
	case TypeSA:
		return vGenSA(tier, slice)
	case TypeKE:
		return &KeyExchange{DiffieHellmanGroup: vr.U16(), KeyExchangeData: vr.Bytes(dataLen(1))}
	case TypeIDi:
		return &IdentificationInitiator{IDType: vr.U8(), IDData: vr.Bytes(dataLen(1))}
	case TypeIDr:
		return &IdentificationResponder{IDType: vr.U8(), IDData: vr.Bytes(dataLen(1))}
	case TypeCERT:
		return &Certificate{CertificateEncoding: vr.U8(), CertificateData: vr.Bytes(dataLen(1))}
	case TypeCERTreq:
		return &CertificateRequest{CertificateEncoding: vr.U8(), CertificationAuthority: vr.Bytes(dataLen(1))}
	case TypeAUTH:
		return &Authentication{AuthenticationMethod: vr.U8(), AuthenticationData: vr.Bytes(dataLen(1))}
	case TypeNiNr:
		return &Nonce{NonceData: vr.Bytes(dataLen(0))}
	case TypeN:
		n := &Notification{ProtocolID: vr.U8(), NotifyMessageType: vr.U16()}
		if k := vSPILen(tier); k > 0 {
			n.SPI = vr.Bytes(k)
		}
		n.NotificationData = vr.Bytes(dataLen(0))
		return n
	case TypeD:
		d := &Delete{ProtocolID: vr.U8()}
		k := 0
		switch tier {
		case -1:
			k = 1
		case 0:
			k = vr.IntIn(0, 1)
		case 1:
			k = vr.IntIn(0, 2)
		default:
			k = vr.IntIn(0, 3)
		}
		if k > 0 {
			d.SPISize = 4
			d.NumberOfSPI = uint16(k)
			for i := 0; i < k; i++ {
				d.SPIs = append(d.SPIs, vr.U32())
			}
		} else if tier >= 0 {
			d.SPISize = vr.U8() // without SPIs the size octet is the sender's to choose (0 for an IKE SA)
		}
		return d
	case TypeV:
		return &VendorID{VendorIDData: vr.Bytes(dataLen(0))}
	case TypeTSi:
		return &TrafficSelectorInitiator{TrafficSelectors: vGenTS(tier)}
	case TypeTSr:
		return &TrafficSelectorResponder{TrafficSelectors: vGenTS(tier)}
	case TypeCP:
		c := &Configuration{ConfigurationType: vr.U8()}
		n := 1
		if tier >= 1 {
			n = vr.IntIn(1, 2)
		}
		for i := 0; i < n; i++ {
			c.ConfigurationAttribute = append(c.ConfigurationAttribute,
				&IndividualConfigurationAttribute{Type: vr.U16() & 0x7fff, Value: vr.Bytes(dataLen(0))})
		}
		return c
	case TypeEAP:
		return vGenEAPPayload(tier)
	case TypeSK:
		// an (opaque) Encrypted payload as it appears in a chain; its NextPayload field is bookkeeping
		// that names whatever follows on the wire
		return &Encrypted{NextPayload: vr.U8(), EncryptedData: vr.Bytes(1 + dataLen(0))}
	}
	panic("VGenPayload: unsupported kind")
}

// VGenHeader builds a header with arbitrary SPIs, exchange type, flags, message id, versions <= 15.
func VGenHeader() *IKEHeader {
	return &IKEHeader{
		InitiatorSPI: vr.U64(), ResponderSPI: vr.U64(),
		MajorVersion: vr.U8() & 0x0f, MinorVersion: vr.U8() & 0x0f,
		ExchangeType: vr.U8(), Flags: vr.U8(), MessageID: vr.U32(),
		// bookkeeping left over from an earlier use of the header (Encode must overwrite it)
		NextPayload: vr.U8(),
	}
}

// VGenMessage builds a message whose payload kinds are given by the parameters from index p0 on
// (0 terminates the list).
func VGenMessage(p0 int, tier int) *IKEMessage {
	m := &IKEMessage{IKEHeader: VGenHeader()}
	for i := p0; ; i++ {
		k := vr.Param(i)
		if k == 0 {
			break
		}
		m.Payloads = append(m.Payloads, VGenPayload(k, tier))
	}
	return m
}

// ---- snapshots ------------------------------------------------------------------------------

func vCloneBytes(b []byte) []byte {
	if b == nil {
		return nil
	}
	return append([]byte{}, b...)
}

// ---- comparators ------------------------------------------------------------------------------

func vEqTransform(a, b *Transform) bool {
	ok := vr.All(a.TransformType == b.TransformType, a.TransformID == b.TransformID,
		a.AttributePresent == b.AttributePresent)
	if !a.AttributePresent {
		return ok
	}
	ok = vr.All(ok, a.AttributeFormat == b.AttributeFormat, a.AttributeType == b.AttributeType)
	if a.AttributeFormat == AttributeFormatUseTV {
		return vr.All(ok, a.AttributeValue == b.AttributeValue)
	}
	return vr.All(ok, vr.EqBytes(a.VariableLengthAttributeValue, b.VariableLengthAttributeValue))
}

func vEqTransforms(a, b TransformContainer) bool {
	if len(a) != len(b) {
		return false
	}
	ok := true
	for i := range a {
		ok = vr.All(ok, vEqTransform(a[i], b[i]))
	}
	return ok
}

func vEqProposal(a, b *Proposal) bool {
	return vr.All(a.ProposalNumber == b.ProposalNumber, a.ProtocolID == b.ProtocolID, vr.EqBytes(a.SPI, b.SPI),
		vEqTransforms(a.EncryptionAlgorithm, b.EncryptionAlgorithm),
		vEqTransforms(a.PseudorandomFunction, b.PseudorandomFunction),
		vEqTransforms(a.IntegrityAlgorithm, b.IntegrityAlgorithm),
		vEqTransforms(a.DiffieHellmanGroup, b.DiffieHellmanGroup),
		vEqTransforms(a.ExtendedSequenceNumbers, b.ExtendedSequenceNumbers))
}

func vEqTS(a, b IndividualTrafficSelectorContainer) bool {
	if len(a) != len(b) {
		return false
	}
	ok := true
	for i := range a {
		x, y := a[i], b[i]
		ok = vr.All(ok, x.TSType == y.TSType, x.IPProtocolID == y.IPProtocolID, x.StartPort == y.StartPort,
			x.EndPort == y.EndPort, vr.EqBytes(x.StartAddress, y.StartAddress), vr.EqBytes(x.EndAddress, y.EndAddress))
	}
	return ok
}

// VEqPayload compares two payloads field by field; nil and empty byte strings are equal.
func VEqPayload(a, b IKEPayload) bool {
	if a.Type() != b.Type() {
		return false
	}
	switch x := a.(type) {
	case *SecurityAssociation:
		y := b.(*SecurityAssociation)
		if len(x.Proposals) != len(y.Proposals) {
			return false
		}
		ok := true
		for i := range x.Proposals {
			ok = vr.All(ok, vEqProposal(x.Proposals[i], y.Proposals[i]))
		}
		return ok
	case *KeyExchange:
		y := b.(*KeyExchange)
		return vr.All(x.DiffieHellmanGroup == y.DiffieHellmanGroup, vr.EqBytes(x.KeyExchangeData, y.KeyExchangeData))
	case *IdentificationInitiator:
		y := b.(*IdentificationInitiator)
		return vr.All(x.IDType == y.IDType, vr.EqBytes(x.IDData, y.IDData))
	case *IdentificationResponder:
		y := b.(*IdentificationResponder)
		return vr.All(x.IDType == y.IDType, vr.EqBytes(x.IDData, y.IDData))
	case *Certificate:
		y := b.(*Certificate)
		return vr.All(x.CertificateEncoding == y.CertificateEncoding, vr.EqBytes(x.CertificateData, y.CertificateData))
	case *CertificateRequest:
		y := b.(*CertificateRequest)
		return vr.All(x.CertificateEncoding == y.CertificateEncoding, vr.EqBytes(x.CertificationAuthority, y.CertificationAuthority))
	case *Authentication:
		y := b.(*Authentication)
		return vr.All(x.AuthenticationMethod == y.AuthenticationMethod, vr.EqBytes(x.AuthenticationData, y.AuthenticationData))
	case *Nonce:
		return vr.EqBytes(x.NonceData, b.(*Nonce).NonceData)
	case *Notification:
		y := b.(*Notification)
		return vr.All(x.ProtocolID == y.ProtocolID, x.NotifyMessageType == y.NotifyMessageType,
			vr.EqBytes(x.SPI, y.SPI), vr.EqBytes(x.NotificationData, y.NotificationData))
	case *Delete:
		y := b.(*Delete)
		if len(x.SPIs) != len(y.SPIs) {
			return false
		}
		ok := vr.All(x.ProtocolID == y.ProtocolID, x.SPISize == y.SPISize, x.NumberOfSPI == y.NumberOfSPI)
		for i := range x.SPIs {
			ok = vr.All(ok, x.SPIs[i] == y.SPIs[i])
		}
		return ok
	case *VendorID:
		return vr.EqBytes(x.VendorIDData, b.(*VendorID).VendorIDData)
	case *TrafficSelectorInitiator:
		return vEqTS(x.TrafficSelectors, b.(*TrafficSelectorInitiator).TrafficSelectors)
	case *TrafficSelectorResponder:
		return vEqTS(x.TrafficSelectors, b.(*TrafficSelectorResponder).TrafficSelectors)
	case *Encrypted:
		y := b.(*Encrypted)
		return vr.All(x.NextPayload == y.NextPayload, vr.EqBytes(x.EncryptedData, y.EncryptedData))
	case *Configuration:
		y := b.(*Configuration)
		if len(x.ConfigurationAttribute) != len(y.ConfigurationAttribute) {
			return false
		}
		ok := x.ConfigurationType == y.ConfigurationType
		for i := range x.ConfigurationAttribute {
			p, q := x.ConfigurationAttribute[i], y.ConfigurationAttribute[i]
			ok = vr.All(ok, p.Type == q.Type, vr.EqBytes(p.Value, q.Value))
		}
		return ok
	case *PayloadEap:
		return eap_message.VEqEAP(x.EAP, b.(*PayloadEap).EAP)
	}
	return false
}

// VEqHeader compares the header fields that are not derived bookkeeping (NextPayload and
// PayloadBytes name the wire form).
func VEqHeader(a, b *IKEHeader) bool {
	return vr.All(a.InitiatorSPI == b.InitiatorSPI, a.ResponderSPI == b.ResponderSPI,
		a.MajorVersion == b.MajorVersion, a.MinorVersion == b.MinorVersion,
		a.ExchangeType == b.ExchangeType, a.Flags == b.Flags, a.MessageID == b.MessageID)
}

func VEqPayloads(a, b IKEPayloadContainer) bool {
	if len(a) != len(b) {
		return false
	}
	ok := true
	for i := range a {
		ok = vr.All(ok, VEqPayload(a[i], b[i]))
	}
	return ok
}

func VEqMessage(a, b *IKEMessage) bool {
	return vr.All(VEqHeader(a.IKEHeader, b.IKEHeader), VEqPayloads(a.Payloads, b.Payloads))
}

// VKindName is used in assertion labels.
func VKindName(kind int) string {
	return IkePayloadType(kind).String()
}

// ---- deep snapshots ---------------------------------------------------------------------------

func vCloneTransforms(c TransformContainer) TransformContainer {
	var out TransformContainer
	for _, t := range c {
		n := *t
		n.VariableLengthAttributeValue = vCloneBytes(t.VariableLengthAttributeValue)
		out = append(out, &n)
	}
	return out
}

func vCloneTS(c IndividualTrafficSelectorContainer) IndividualTrafficSelectorContainer {
	var out IndividualTrafficSelectorContainer
	for _, t := range c {
		n := *t
		n.StartAddress, n.EndAddress = vCloneBytes(t.StartAddress), vCloneBytes(t.EndAddress)
		out = append(out, &n)
	}
	return out
}

// VClonePayload makes a deep copy (snapshot) of a payload.
func VClonePayload(p IKEPayload) IKEPayload {
	switch x := p.(type) {
	case *SecurityAssociation:
		sa := new(SecurityAssociation)
		for _, pr := range x.Proposals {
			sa.Proposals = append(sa.Proposals, &Proposal{ProposalNumber: pr.ProposalNumber, ProtocolID: pr.ProtocolID, SPI: vCloneBytes(pr.SPI),
				EncryptionAlgorithm: vCloneTransforms(pr.EncryptionAlgorithm), PseudorandomFunction: vCloneTransforms(pr.PseudorandomFunction),
				IntegrityAlgorithm: vCloneTransforms(pr.IntegrityAlgorithm), DiffieHellmanGroup: vCloneTransforms(pr.DiffieHellmanGroup),
				ExtendedSequenceNumbers: vCloneTransforms(pr.ExtendedSequenceNumbers)})
		}
		return sa
	case *KeyExchange:
		return &KeyExchange{DiffieHellmanGroup: x.DiffieHellmanGroup, KeyExchangeData: vCloneBytes(x.KeyExchangeData)}
	case *IdentificationInitiator:
		return &IdentificationInitiator{IDType: x.IDType, IDData: vCloneBytes(x.IDData)}
	case *IdentificationResponder:
		return &IdentificationResponder{IDType: x.IDType, IDData: vCloneBytes(x.IDData)}
	case *Certificate:
		return &Certificate{CertificateEncoding: x.CertificateEncoding, CertificateData: vCloneBytes(x.CertificateData)}
	case *CertificateRequest:
		return &CertificateRequest{CertificateEncoding: x.CertificateEncoding, CertificationAuthority: vCloneBytes(x.CertificationAuthority)}
	case *Authentication:
		return &Authentication{AuthenticationMethod: x.AuthenticationMethod, AuthenticationData: vCloneBytes(x.AuthenticationData)}
	case *Nonce:
		return &Nonce{NonceData: vCloneBytes(x.NonceData)}
	case *Notification:
		return &Notification{ProtocolID: x.ProtocolID, NotifyMessageType: x.NotifyMessageType, SPI: vCloneBytes(x.SPI), NotificationData: vCloneBytes(x.NotificationData)}
	case *Delete:
		d := &Delete{ProtocolID: x.ProtocolID, SPISize: x.SPISize, NumberOfSPI: x.NumberOfSPI}
		d.SPIs = append(d.SPIs, x.SPIs...)
		return d
	case *VendorID:
		return &VendorID{VendorIDData: vCloneBytes(x.VendorIDData)}
	case *TrafficSelectorInitiator:
		return &TrafficSelectorInitiator{TrafficSelectors: vCloneTS(x.TrafficSelectors)}
	case *TrafficSelectorResponder:
		return &TrafficSelectorResponder{TrafficSelectors: vCloneTS(x.TrafficSelectors)}
	case *Encrypted:
		return &Encrypted{NextPayload: x.NextPayload, EncryptedData: vCloneBytes(x.EncryptedData)}
	case *Configuration:
		c := &Configuration{ConfigurationType: x.ConfigurationType}
		for _, a := range x.ConfigurationAttribute {
			c.ConfigurationAttribute = append(c.ConfigurationAttribute, &IndividualConfigurationAttribute{Type: a.Type, Value: vCloneBytes(a.Value)})
		}
		return c
	case *PayloadEap:
		return &PayloadEap{EAP: eap_message.VCloneEAP(x.EAP)}
	}
	panic("VClonePayload: unknown payload")
}

func VClonePayloads(c IKEPayloadContainer) IKEPayloadContainer {
	var out IKEPayloadContainer
	for _, p := range c {
		out = append(out, VClonePayload(p))
	}
	return out
}

func VCloneMessage(m *IKEMessage) *IKEMessage {
	h := *m.IKEHeader
	h.PayloadBytes = vCloneBytes(m.IKEHeader.PayloadBytes)
	return &IKEMessage{IKEHeader: &h, Payloads: VClonePayloads(m.Payloads)}
}

// ---- independent chain assembly (used by C13 and the reference codec) ----------------------------

// VItem is one element of a payload chain on the wire: its type, flags octet and body.
type VItem struct {
	Type  uint8
	Flags uint8
	Body  []byte
}

// VAssemble writes header + chain from scratch (RFC 7296 3.1, 3.2), independently of the library's
// encoder: next-payload links, lengths, total length.
func VAssemble(h *IKEHeader, items []VItem) []byte {
	var chain []byte
	for i, it := range items {
		next := uint8(0)
		if i+1 < len(items) {
			next = items[i+1].Type
		}
		l := 4 + len(it.Body)
		chain = append(chain, next, it.Flags, uint8(l>>8), uint8(l))
		chain = append(chain, it.Body...)
	}
	first := uint8(0)
	if len(items) > 0 {
		first = items[0].Type
	}
	total := 28 + len(chain)
	out := make([]byte, 0, total)
	for s := 56; s >= 0; s -= 8 {
		out = append(out, uint8(h.InitiatorSPI>>uint(s)))
	}
	for s := 56; s >= 0; s -= 8 {
		out = append(out, uint8(h.ResponderSPI>>uint(s)))
	}
	out = append(out, first, h.MajorVersion<<4|h.MinorVersion&0x0f, h.ExchangeType, h.Flags)
	out = append(out, uint8(h.MessageID>>24), uint8(h.MessageID>>16), uint8(h.MessageID>>8), uint8(h.MessageID))
	out = append(out, uint8(total>>24), uint8(total>>16), uint8(total>>8), uint8(total))
	return append(out, chain...)
}

// VBodyOf returns the body octets the library's encoder produces for one payload.
func VBodyOf(p IKEPayload) ([]byte, error) {
	return p.Marshal()
}

// VEqPayloadsExact is VEqPayloads plus the private EAP-AKA' bookkeeping (frame conditions).
func VEqPayloadsExact(a, b IKEPayloadContainer) bool {
	ok := VEqPayloads(a, b)
	if len(a) != len(b) {
		return false
	}
	for i := range a {
		x, isx := a[i].(*PayloadEap)
		y, isy := b[i].(*PayloadEap)
		if isx && isy && x.EAP != nil && y.EAP != nil && x.EAP.EapTypeData != nil && y.EAP.EapTypeData != nil {
			ok = vr.All(ok, eap_message.VEqEAPExact(x.EAP, y.EAP))
		}
	}
	return ok
}
