package message

import (
	eap_message "github.com/free5gc/ike/eap"
	vr "github.com/free5gc/ike/internal/verifrt"
)

// ---------------------------------------------------------------------------------------------
// Independent RFC 7296 section 3 codec (layouts in DESIGN.md Appendix A).  Shares no code with the
// library's Marshal / Unmarshal functions: own field offsets, own loops.  The encoder is "liberal":
// with lib = true every reserved field receives an arbitrary (symbolic) value.

func vRes(lib bool) uint8 {
	if lib {
		return vr.U8()
	}
	return 0
}

func vPut16(b []byte, v int) []byte { return append(b, uint8(v>>8), uint8(v)) }

// VRefTransforms lists the transforms of a proposal in wire order.
func vRefTransformBytes(t *Transform, last bool, lib bool) []byte {
	var attr []byte
	if t.AttributePresent {
		if t.AttributeFormat == AttributeFormatUseTV {
			attr = vPut16(attr, int(t.AttributeType&0x7fff)|0x8000)
			attr = vPut16(attr, int(t.AttributeValue))
		} else {
			attr = vPut16(attr, int(t.AttributeType&0x7fff))
			attr = vPut16(attr, len(t.VariableLengthAttributeValue))
			attr = append(attr, t.VariableLengthAttributeValue...)
		}
	}
	var out []byte
	if last {
		out = append(out, 0)
	} else {
		out = append(out, 3)
	}
	out = append(out, vRes(lib))
	out = vPut16(out, 8+len(attr))
	out = append(out, t.TransformType, vRes(lib))
	out = vPut16(out, int(t.TransformID))
	return append(out, attr...)
}

// VRefProposal: a proposal with its transforms in the order they appear on the wire.
type VRefProposal struct {
	Number, Protocol uint8
	SPI              []byte
	Transforms       []*Transform
}

func vRefSABody(ps []*VRefProposal, lib bool) []byte {
	var out []byte
	for i, p := range ps {
		var ts []byte
		for j, t := range p.Transforms {
			ts = append(ts, vRefTransformBytes(t, j == len(p.Transforms)-1, lib)...)
		}
		if i == len(ps)-1 {
			out = append(out, 0)
		} else {
			out = append(out, 2)
		}
		out = append(out, vRes(lib))
		out = vPut16(out, 8+len(p.SPI)+len(ts))
		out = append(out, p.Number, p.Protocol, uint8(len(p.SPI)), uint8(len(p.Transforms)))
		out = append(out, p.SPI...)
		out = append(out, ts...)
	}
	return out
}

// VWireOrder flattens a proposal's transforms in the library's marshalling order (by type).
func vWireOrder(p *Proposal) []*Transform {
	var ts []*Transform
	ts = append(ts, p.EncryptionAlgorithm...)
	ts = append(ts, p.PseudorandomFunction...)
	ts = append(ts, p.IntegrityAlgorithm...)
	ts = append(ts, p.DiffieHellmanGroup...)
	ts = append(ts, p.ExtendedSequenceNumbers...)
	return ts
}

func vRefTSBody(c IndividualTrafficSelectorContainer, lib bool) []byte {
	out := []byte{uint8(len(c)), vRes(lib), vRes(lib), vRes(lib)}
	for _, s := range c {
		out = append(out, s.TSType, s.IPProtocolID)
		out = vPut16(out, 8+len(s.StartAddress)+len(s.EndAddress))
		out = vPut16(out, int(s.StartPort))
		out = vPut16(out, int(s.EndPort))
		out = append(out, s.StartAddress...)
		out = append(out, s.EndAddress...)
	}
	return out
}

// VRefBody encodes the body of one payload.  perm selects the transform wire order of SA proposals:
// 0 = grouped by type (the library's own order), 1 = reversed, 2 = rotated by one.
func VRefBody(p IKEPayload, lib bool, perm int) []byte {
	switch x := p.(type) {
	case *SecurityAssociation:
		var ps []*VRefProposal
		for _, pr := range x.Proposals {
			ts := vWireOrder(pr)
			n := len(ts)
			w := make([]*Transform, n)
			for i := range ts {
				switch perm {
				case 1:
					w[i] = ts[n-1-i]
				case 2:
					w[i] = ts[(i+1)%n]
				default:
					w[i] = ts[i]
				}
			}
			ps = append(ps, &VRefProposal{Number: pr.ProposalNumber, Protocol: pr.ProtocolID, SPI: pr.SPI, Transforms: w})
		}
		return vRefSABody(ps, lib)
	case *KeyExchange:
		out := vPut16(nil, int(x.DiffieHellmanGroup))
		out = append(out, vRes(lib), vRes(lib))
		return append(out, x.KeyExchangeData...)
	case *IdentificationInitiator:
		return append([]byte{x.IDType, vRes(lib), vRes(lib), vRes(lib)}, x.IDData...)
	case *IdentificationResponder:
		return append([]byte{x.IDType, vRes(lib), vRes(lib), vRes(lib)}, x.IDData...)
	case *Certificate:
		return append([]byte{x.CertificateEncoding}, x.CertificateData...)
	case *CertificateRequest:
		return append([]byte{x.CertificateEncoding}, x.CertificationAuthority...)
	case *Authentication:
		return append([]byte{x.AuthenticationMethod, vRes(lib), vRes(lib), vRes(lib)}, x.AuthenticationData...)
	case *Nonce:
		return append([]byte{}, x.NonceData...)
	case *Notification:
		out := []byte{x.ProtocolID, uint8(len(x.SPI))}
		out = vPut16(out, int(x.NotifyMessageType))
		out = append(out, x.SPI...)
		return append(out, x.NotificationData...)
	case *Delete:
		out := []byte{x.ProtocolID, x.SPISize}
		out = vPut16(out, len(x.SPIs))
		for _, s := range x.SPIs {
			out = append(out, uint8(s>>24), uint8(s>>16), uint8(s>>8), uint8(s))
		}
		return out
	case *VendorID:
		return append([]byte{}, x.VendorIDData...)
	case *TrafficSelectorInitiator:
		return vRefTSBody(x.TrafficSelectors, lib)
	case *TrafficSelectorResponder:
		return vRefTSBody(x.TrafficSelectors, lib)
	case *Configuration:
		out := []byte{x.ConfigurationType, vRes(lib), vRes(lib), vRes(lib)}
		for _, a := range x.ConfigurationAttribute {
			r := 0
			if lib {
				r = int(vr.U8()&1) << 15
			}
			out = vPut16(out, int(a.Type&0x7fff)|r)
			out = vPut16(out, len(a.Value))
			out = append(out, a.Value...)
		}
		return out
	case *PayloadEap:
		return eap_message.VRefEncodeEAP(x.EAP)
	case *Encrypted:
		return append([]byte{}, x.EncryptedData...)
	}
	panic("VRefBody: unknown payload")
}

// VRefEncode encodes a whole message with the reference codec.  lib: arbitrary reserved bits and
// arbitrary critical flags on the (understood) payloads; perm: transform order.
func VRefEncode(m *IKEMessage, lib bool, perm int) []byte {
	var items []VItem
	for _, p := range m.Payloads {
		items = append(items, VItem{Type: VRefType(p), Flags: vRes(lib), Body: VRefBody(p, lib, perm)})
	}
	return VAssemble(m.IKEHeader, items)
}

// VRefType is the RFC 7296 section 3.2 payload type number of a payload object, from the Go type (the
// reference codec shares neither layouts nor numbers with the library: its Type() methods and Type*
// constants are part of what is checked).
func VRefType(p IKEPayload) uint8 {
	switch p.(type) {
	case *SecurityAssociation:
		return 33
	case *KeyExchange:
		return 34
	case *IdentificationInitiator:
		return 35
	case *IdentificationResponder:
		return 36
	case *Certificate:
		return 37
	case *CertificateRequest:
		return 38
	case *Authentication:
		return 39
	case *Nonce:
		return 40
	case *Notification:
		return 41
	case *Delete:
		return 42
	case *VendorID:
		return 43
	case *TrafficSelectorInitiator:
		return 44
	case *TrafficSelectorResponder:
		return 45
	case *Encrypted:
		return 46
	case *Configuration:
		return 47
	case *PayloadEap:
		return 48
	}
	panic("VRefType: unknown payload object")
}

// VRefEncodeChain returns the type of the first payload and the chain octets (no header).
func VRefEncodeChain(ps IKEPayloadContainer, lib bool, perm int) (uint8, []byte) {
	var chain []byte
	for i, p := range ps {
		next := uint8(0)
		if i+1 < len(ps) {
			next = VRefType(ps[i+1])
		}
		body := VRefBody(p, lib, perm)
		l := 4 + len(body)
		chain = append(chain, next, vRes(lib), uint8(l>>8), uint8(l))
		chain = append(chain, body...)
	}
	first := uint8(0)
	if len(ps) > 0 {
		first = VRefType(ps[0])
	}
	return first, chain
}

// VRefParseChain is the strict parser of a payload chain starting with payload type next.
func VRefParseChain(next uint8, r []byte) (IKEPayloadContainer, bool) {
	var out IKEPayloadContainer
	for len(r) > 0 {
		if len(r) < 4 || next == 0 {
			return nil, false
		}
		l := vGet16(r, 2)
		if l < 4 || l > len(r) || r[1] != 0 {
			return nil, false
		}
		p, ok := VRefParseBody(next, r[4:l])
		if !ok {
			return nil, false
		}
		out = append(out, p)
		next = r[0]
		r = r[l:]
	}
	if next != 0 {
		return nil, false
	}
	return out, true
}

// ---- strict parser ----------------------------------------------------------------------------

func vGet16(b []byte, o int) int { return int(b[o])<<8 | int(b[o+1]) }

func vRefParseSA(b []byte) (*SecurityAssociation, bool) {
	sa := new(SecurityAssociation)
	if len(b) == 0 {
		return nil, false
	}
	for len(b) > 0 {
		if len(b) < 8 {
			return nil, false
		}
		pl := vGet16(b, 2)
		if pl < 8 || pl > len(b) {
			return nil, false
		}
		lastP := pl == len(b)
		if (lastP && b[0] != 0) || (!lastP && b[0] != 2) || b[1] != 0 {
			return nil, false
		}
		spi, nt := int(b[6]), int(b[7])
		if 8+spi > pl {
			return nil, false
		}
		p := &Proposal{ProposalNumber: b[4], ProtocolID: b[5]}
		if spi > 0 {
			p.SPI = append([]byte{}, b[8:8+spi]...)
		}
		t := b[8+spi : pl]
		cnt := 0
		for len(t) > 0 {
			if len(t) < 8 {
				return nil, false
			}
			tl := vGet16(t, 2)
			if tl < 8 || tl > len(t) {
				return nil, false
			}
			lastT := tl == len(t)
			if (lastT && t[0] != 0) || (!lastT && t[0] != 3) || t[1] != 0 || t[5] != 0 {
				return nil, false
			}
			tr := &Transform{TransformType: t[4], TransformID: uint16(vGet16(t, 6))}
			if tl > 8 {
				if tl < 12 {
					return nil, false
				}
				ft := vGet16(t, 8)
				tr.AttributePresent = true
				tr.AttributeType = uint16(ft & 0x7fff)
				if ft&0x8000 != 0 {
					if tl != 12 {
						return nil, false
					}
					tr.AttributeFormat = AttributeFormatUseTV
					tr.AttributeValue = uint16(vGet16(t, 10))
				} else {
					al := vGet16(t, 10)
					if 12+al != tl {
						return nil, false
					}
					tr.AttributeFormat = AttributeFormatUseTLV
					tr.VariableLengthAttributeValue = append([]byte{}, t[12:tl]...)
				}
			}
			if tr.TransformType < 1 || tr.TransformType > 5 {
				return nil, false
			}
			vFile(p, tr)
			cnt++
			t = t[tl:]
		}
		if cnt != nt {
			return nil, false
		}
		sa.Proposals = append(sa.Proposals, p)
		b = b[pl:]
	}
	return sa, true
}

func vRefParseTS(b []byte) (IndividualTrafficSelectorContainer, bool) {
	if len(b) < 4 || b[1] != 0 || b[2] != 0 || b[3] != 0 {
		return nil, false
	}
	n := int(b[0])
	b = b[4:]
	var c IndividualTrafficSelectorContainer
	for i := 0; i < n; i++ {
		if len(b) < 8 {
			return nil, false
		}
		al := 0
		switch b[0] {
		case 7:
			al = 4
		case 8:
			al = 16
		default:
			return nil, false
		}
		sl := vGet16(b, 2)
		if sl != 8+2*al || sl > len(b) {
			return nil, false
		}
		c = append(c, &IndividualTrafficSelector{TSType: b[0], IPProtocolID: b[1], StartPort: uint16(vGet16(b, 4)), EndPort: uint16(vGet16(b, 6)),
			StartAddress: append([]byte{}, b[8:8+al]...), EndAddress: append([]byte{}, b[8+al:8+2*al]...)})
		b = b[sl:]
	}
	if len(b) != 0 || n == 0 {
		return nil, false
	}
	return c, true
}

// VRefParseBody: strict parser for one payload body of the given type; reserved fields must be zero
// and every length must equal the real extent.
func VRefParseBody(t uint8, b []byte) (IKEPayload, bool) {
	switch t { // RFC 7296 section 3.2 numbers, not the library's constants
	case 33: // SA
		return vRefParseSAp(b)
	case 34: // KE
		if len(b) < 5 || b[2] != 0 || b[3] != 0 {
			return nil, false
		}
		return &KeyExchange{DiffieHellmanGroup: uint16(vGet16(b, 0)), KeyExchangeData: append([]byte{}, b[4:]...)}, true
	case 35: // IDi
		if len(b) < 5 || b[1] != 0 || b[2] != 0 || b[3] != 0 {
			return nil, false
		}
		return &IdentificationInitiator{IDType: b[0], IDData: append([]byte{}, b[4:]...)}, true
	case 36: // IDr
		if len(b) < 5 || b[1] != 0 || b[2] != 0 || b[3] != 0 {
			return nil, false
		}
		return &IdentificationResponder{IDType: b[0], IDData: append([]byte{}, b[4:]...)}, true
	case 37: // CERT
		if len(b) < 2 {
			return nil, false
		}
		return &Certificate{CertificateEncoding: b[0], CertificateData: append([]byte{}, b[1:]...)}, true
	case 38: // CERTreq
		if len(b) < 2 {
			return nil, false
		}
		return &CertificateRequest{CertificateEncoding: b[0], CertificationAuthority: append([]byte{}, b[1:]...)}, true
	case 39: // AUTH
		if len(b) < 5 || b[1] != 0 || b[2] != 0 || b[3] != 0 {
			return nil, false
		}
		return &Authentication{AuthenticationMethod: b[0], AuthenticationData: append([]byte{}, b[4:]...)}, true
	case 40: // NiNr
		return &Nonce{NonceData: append([]byte{}, b...)}, true
	case 41: // N
		if len(b) < 4 || 4+int(b[1]) > len(b) {
			return nil, false
		}
		s := int(b[1])
		return &Notification{ProtocolID: b[0], NotifyMessageType: uint16(vGet16(b, 2)), SPI: append([]byte{}, b[4:4+s]...),
			NotificationData: append([]byte{}, b[4+s:]...)}, true
	case 42: // D
		if len(b) < 4 {
			return nil, false
		}
		sz, n := int(b[1]), vGet16(b, 2)
		if 4+sz*n != len(b) || (n > 0 && sz != 4) {
			return nil, false
		}
		d := &Delete{ProtocolID: b[0], SPISize: b[1], NumberOfSPI: uint16(n)}
		for i := 0; i < n; i++ {
			o := 4 + 4*i
			d.SPIs = append(d.SPIs, uint32(b[o])<<24|uint32(b[o+1])<<16|uint32(b[o+2])<<8|uint32(b[o+3]))
		}
		return d, true
	case 43: // V
		return &VendorID{VendorIDData: append([]byte{}, b...)}, true
	case 44: // TSi
		c, ok := vRefParseTS(b)
		return &TrafficSelectorInitiator{TrafficSelectors: c}, ok
	case 45: // TSr
		c, ok := vRefParseTS(b)
		return &TrafficSelectorResponder{TrafficSelectors: c}, ok
	case 47: // CP
		if len(b) < 4 || b[1] != 0 || b[2] != 0 || b[3] != 0 {
			return nil, false
		}
		c := &Configuration{ConfigurationType: b[0]}
		r := b[4:]
		for len(r) > 0 {
			if len(r) < 4 {
				return nil, false
			}
			ty, l := vGet16(r, 0), vGet16(r, 2)
			if ty&0x8000 != 0 || 4+l > len(r) {
				return nil, false
			}
			c.ConfigurationAttribute = append(c.ConfigurationAttribute, &IndividualConfigurationAttribute{Type: uint16(ty), Value: append([]byte{}, r[4:4+l]...)})
			r = r[4+l:]
		}
		return c, true
	case 48: // EAP
		e, ok := eap_message.VRefParseEAP(b)
		return &PayloadEap{EAP: e}, ok
	}
	return nil, false
}

func vRefParseSAp(b []byte) (IKEPayload, bool) {
	sa, ok := vRefParseSA(b)
	return sa, ok
}

// VRefParse is the strict reference parser of a whole datagram (no unsupported payloads, zero
// reserved bits and critical flags, exact lengths, chain terminated by 0).
func VRefParse(b []byte) (*IKEMessage, bool) {
	if len(b) < 28 {
		return nil, false
	}
	total := int(b[24])<<24 | int(b[25])<<16 | int(b[26])<<8 | int(b[27])
	if total != len(b) {
		return nil, false
	}
	h := &IKEHeader{MajorVersion: b[17] >> 4, MinorVersion: b[17] & 0x0f, ExchangeType: b[18], Flags: b[19]}
	for i := 0; i < 8; i++ {
		h.InitiatorSPI = h.InitiatorSPI<<8 | uint64(b[i])
		h.ResponderSPI = h.ResponderSPI<<8 | uint64(b[8+i])
	}
	h.MessageID = uint32(b[20])<<24 | uint32(b[21])<<16 | uint32(b[22])<<8 | uint32(b[23])
	m := &IKEMessage{IKEHeader: h}
	next := b[16]
	r := b[28:]
	for len(r) > 0 {
		if len(r) < 4 || next == 0 {
			return nil, false
		}
		l := vGet16(r, 2)
		if l < 4 || l > len(r) || r[1] != 0 {
			return nil, false
		}
		p, ok := VRefParseBody(next, r[4:l])
		if !ok {
			return nil, false
		}
		m.Payloads = append(m.Payloads, p)
		next = r[0]
		r = r[l:]
	}
	if next != 0 {
		return nil, false
	}
	return m, true
}

// VRefParseHeaderOnly reads the 28 header octets with the reference offsets.
func VRefParseHeaderOnly(b []byte) (*IKEHeader, bool) {
	if len(b) < 28 {
		return nil, false
	}
	h := &IKEHeader{MajorVersion: b[17] >> 4, MinorVersion: b[17] & 0x0f, ExchangeType: b[18], Flags: b[19]}
	for i := 0; i < 8; i++ {
		h.InitiatorSPI = h.InitiatorSPI<<8 | uint64(b[i])
		h.ResponderSPI = h.ResponderSPI<<8 | uint64(b[8+i])
	}
	h.MessageID = uint32(b[20])<<24 | uint32(b[21])<<16 | uint32(b[22])<<8 | uint32(b[23])
	return h, true
}

// VAssembleFirst assembles header + one payload whose own next-payload field is given explicitly
// (the Encrypted payload names the first inner payload there).
func VAssembleFirst(h *IKEHeader, it VItem, next uint8) []byte {
	b := VAssemble(h, []VItem{it})
	b[28] = next
	return b
}
