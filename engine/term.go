package main

import (
	"fmt"
	"math/big"
	"strings"
)

// ---------------------------------------------------------------------------
// Hash-consed term DAG over Bool, fixed-width bit-vectors and one array sort
// (BV64 -> BV8), with constant folding.  A term that folds to a constant never
// reaches the solver.

type Kind uint8

const (
	KBool Kind = iota
	KBV
	KArr
)

type Sort struct {
	K Kind
	W int
}

var BoolSort = Sort{KBool, 0}
var ArrSort = Sort{KArr, 0}

func BV(w int) Sort { return Sort{KBV, w} }

func (s Sort) SMT() string {
	switch s.K {
	case KBool:
		return "Bool"
	case KBV:
		return fmt.Sprintf("(_ BitVec %d)", s.W)
	default:
		return "(Array (_ BitVec 64) (_ BitVec 8))"
	}
}

type Op uint8

const (
	OpConst Op = iota
	OpVar
	OpNot
	OpAnd
	OpOr
	OpEq
	OpIte
	OpAdd
	OpSub
	OpMul
	OpUDiv
	OpURem
	OpSDiv
	OpSRem
	OpBAnd
	OpBOr
	OpBXor
	OpBNot
	OpNeg
	OpShl
	OpLshr
	OpAshr
	OpUlt
	OpUle
	OpSlt
	OpSle
	OpExtract
	OpConcat
	OpZext
	OpSext
	OpSelect
	OpStore
	OpConstArr
	OpUF
)

var opSMT = map[Op]string{
	OpNot: "not", OpAnd: "and", OpOr: "or", OpEq: "=", OpIte: "ite",
	OpAdd: "bvadd", OpSub: "bvsub", OpMul: "bvmul", OpUDiv: "bvudiv", OpURem: "bvurem",
	OpSDiv: "bvsdiv", OpSRem: "bvsrem", OpBAnd: "bvand", OpBOr: "bvor", OpBXor: "bvxor",
	OpBNot: "bvnot", OpNeg: "bvneg", OpShl: "bvshl", OpLshr: "bvlshr", OpAshr: "bvashr",
	OpUlt: "bvult", OpUle: "bvule", OpSlt: "bvslt", OpSle: "bvsle", OpConcat: "concat",
	OpSelect: "select", OpStore: "store",
}

type Term struct {
	id   int
	op   Op
	sort Sort
	args []*Term
	val  uint64   // constant value (width <= 64) / bool (0,1)
	big  *big.Int // constant value (width > 64)
	a, b int      // extract hi, lo; extension amount
	name string   // variable or UF name
}

type UFDecl struct {
	name string
	args []Sort
	res  Sort
}

type TermTable struct {
	tab   map[string]*Term
	next  int
	ufs   map[string]*UFDecl
	uford []*UFDecl
	fresh int
}

var TT *TermTable

func NewTermTable() *TermTable {
	return &TermTable{tab: map[string]*Term{}, ufs: map[string]*UFDecl{}}
}

func (tt *TermTable) intern(t *Term) *Term {
	var sb strings.Builder
	fmt.Fprintf(&sb, "%d|%d.%d|%d|%d|%d|%s|", t.op, t.sort.K, t.sort.W, t.val, t.a, t.b, t.name)
	if t.big != nil {
		sb.WriteString(t.big.Text(16))
	}
	for _, a := range t.args {
		fmt.Fprintf(&sb, ",%d", a.id)
	}
	k := sb.String()
	if e, ok := tt.tab[k]; ok {
		return e
	}
	tt.next++
	t.id = tt.next
	tt.tab[k] = t
	return t
}

func mask(w int) uint64 {
	if w >= 64 {
		return ^uint64(0)
	}
	return (uint64(1) << uint(w)) - 1
}

func bigMask(w int) *big.Int {
	m := new(big.Int).Lsh(big.NewInt(1), uint(w))
	return m.Sub(m, big.NewInt(1))
}

// ---- constructors ----------------------------------------------------------

var tTrue, tFalse *Term

func mkBool(b bool) *Term {
	if b {
		return TT.intern(&Term{op: OpConst, sort: BoolSort, val: 1})
	}
	return TT.intern(&Term{op: OpConst, sort: BoolSort, val: 0})
}

func mkBV(w int, v uint64) *Term {
	if w > 64 {
		return mkBigBV(w, new(big.Int).SetUint64(v))
	}
	return TT.intern(&Term{op: OpConst, sort: BV(w), val: v & mask(w)})
}

func mkBigBV(w int, v *big.Int) *Term {
	v = new(big.Int).And(v, bigMask(w))
	if w <= 64 {
		return mkBV(w, v.Uint64())
	}
	return TT.intern(&Term{op: OpConst, sort: BV(w), big: v})
}

func mkVar(name string, s Sort) *Term {
	return TT.intern(&Term{op: OpVar, sort: s, name: name})
}

func freshVar(prefix string, s Sort) *Term {
	TT.fresh++
	return mkVar(fmt.Sprintf("%s!%d", prefix, TT.fresh), s)
}

func (t *Term) IsConst() bool { return t.op == OpConst }
func (t *Term) IsTrue() bool  { return t.op == OpConst && t.sort.K == KBool && t.val == 1 }
func (t *Term) IsFalse() bool { return t.op == OpConst && t.sort.K == KBool && t.val == 0 }

// ConstU returns the value of a constant of width <= 64.
func (t *Term) ConstU() (uint64, bool) {
	if t.op == OpConst && t.sort.K == KBV && t.sort.W <= 64 {
		return t.val, true
	}
	return 0, false
}

func (t *Term) ConstBig() (*big.Int, bool) {
	if t.op != OpConst || t.sort.K != KBV {
		return nil, false
	}
	if t.sort.W <= 64 {
		return new(big.Int).SetUint64(t.val), true
	}
	return t.big, true
}

func signExt(v uint64, w int) int64 {
	if w >= 64 {
		return int64(v)
	}
	if v&(uint64(1)<<uint(w-1)) != 0 {
		return int64(v | ^mask(w))
	}
	return int64(v)
}

func mkNot(a *Term) *Term {
	if a.IsConst() {
		return mkBool(a.val == 0)
	}
	if a.op == OpNot {
		return a.args[0]
	}
	return TT.intern(&Term{op: OpNot, sort: BoolSort, args: []*Term{a}})
}

func mkAnd(xs ...*Term) *Term {
	var out []*Term
	seen := map[int]bool{}
	for _, x := range xs {
		if x.IsFalse() {
			return mkBool(false)
		}
		if x.IsTrue() {
			continue
		}
		if x.op == OpAnd {
			for _, y := range x.args {
				if !seen[y.id] {
					seen[y.id] = true
					out = append(out, y)
				}
			}
			continue
		}
		if !seen[x.id] {
			seen[x.id] = true
			out = append(out, x)
		}
	}
	for _, x := range out {
		if x.op == OpNot && seen[x.args[0].id] {
			return mkBool(false)
		}
	}
	if len(out) == 0 {
		return mkBool(true)
	}
	if len(out) == 1 {
		return out[0]
	}
	return TT.intern(&Term{op: OpAnd, sort: BoolSort, args: out})
}

func mkOr(xs ...*Term) *Term {
	var out []*Term
	seen := map[int]bool{}
	for _, x := range xs {
		if x.IsTrue() {
			return mkBool(true)
		}
		if x.IsFalse() {
			continue
		}
		if x.op == OpOr {
			for _, y := range x.args {
				if !seen[y.id] {
					seen[y.id] = true
					out = append(out, y)
				}
			}
			continue
		}
		if !seen[x.id] {
			seen[x.id] = true
			out = append(out, x)
		}
	}
	for _, x := range out {
		if x.op == OpNot && seen[x.args[0].id] {
			return mkBool(true)
		}
	}
	if len(out) == 0 {
		return mkBool(false)
	}
	if len(out) == 1 {
		return out[0]
	}
	return TT.intern(&Term{op: OpOr, sort: BoolSort, args: out})
}

func mkImplies(a, b *Term) *Term { return mkOr(mkNot(a), b) }

func mkEq(a, b *Term) *Term {
	if a == b {
		return mkBool(true)
	}
	if a.sort != b.sort {
		panic(fmt.Sprintf("mkEq sort mismatch %v %v", a.sort, b.sort))
	}
	if a.IsConst() && b.IsConst() {
		if a.sort.K == KBV && a.sort.W > 64 {
			return mkBool(a.big.Cmp(b.big) == 0)
		}
		return mkBool(a.val == b.val)
	}
	if a.sort.K == KBool {
		if a.IsConst() {
			a, b = b, a
		}
		if b.IsTrue() {
			return a
		}
		if b.IsFalse() {
			return mkNot(a)
		}
	}
	if a.id > b.id {
		a, b = b, a
	}
	// concat(x1..xn) == concat(y1..yn) with equal piece widths: split
	if a.op == OpConcat && b.op == OpConcat && len(a.args) == len(b.args) {
		same := true
		for i := range a.args {
			if a.args[i].sort != b.args[i].sort {
				same = false
				break
			}
		}
		if same {
			var cs []*Term
			for i := range a.args {
				cs = append(cs, mkEq(a.args[i], b.args[i]))
			}
			return mkAnd(cs...)
		}
	}
	return TT.intern(&Term{op: OpEq, sort: BoolSort, args: []*Term{a, b}})
}

func mkIte(c, a, b *Term) *Term {
	if c.IsTrue() {
		return a
	}
	if c.IsFalse() {
		return b
	}
	if a == b {
		return a
	}
	if a.sort.K == KBool {
		if a.IsTrue() && b.IsFalse() {
			return c
		}
		if a.IsFalse() && b.IsTrue() {
			return mkNot(c)
		}
	}
	return TT.intern(&Term{op: OpIte, sort: a.sort, args: []*Term{c, a, b}})
}

func foldBin(op Op, w int, x, y uint64) (uint64, bool) {
	m := mask(w)
	switch op {
	case OpAdd:
		return (x + y) & m, true
	case OpSub:
		return (x - y) & m, true
	case OpMul:
		return (x * y) & m, true
	case OpUDiv:
		if y == 0 {
			return m, true
		}
		return x / y, true
	case OpURem:
		if y == 0 {
			return x, true
		}
		return x % y, true
	case OpSDiv:
		if y == 0 {
			return 0, false
		}
		sx, sy := signExt(x, w), signExt(y, w)
		if sy == -1 {
			return uint64(-sx) & m, true
		}
		return uint64(sx/sy) & m, true
	case OpSRem:
		if y == 0 {
			return 0, false
		}
		sx, sy := signExt(x, w), signExt(y, w)
		if sy == -1 {
			return 0, true
		}
		return uint64(sx%sy) & m, true
	case OpBAnd:
		return x & y, true
	case OpBOr:
		return x | y, true
	case OpBXor:
		return x ^ y, true
	case OpShl:
		if y >= uint64(w) {
			return 0, true
		}
		return (x << y) & m, true
	case OpLshr:
		if y >= uint64(w) {
			return 0, true
		}
		return x >> y, true
	case OpAshr:
		sx := signExt(x, w)
		if y >= uint64(w) {
			y = uint64(w - 1)
		}
		return uint64(sx>>y) & m, true
	}
	return 0, false
}

func mkBin(op Op, a, b *Term) *Term {
	if a.sort != b.sort || a.sort.K != KBV {
		panic(fmt.Sprintf("mkBin %v sort mismatch %v %v", op, a.sort, b.sort))
	}
	w := a.sort.W
	if w <= 64 {
		if a.IsConst() && b.IsConst() {
			if v, ok := foldBin(op, w, a.val, b.val); ok {
				return mkBV(w, v)
			}
		}
		// identities
		switch op {
		case OpAdd:
			if a.IsConst() && a.val == 0 {
				return b
			}
			if b.IsConst() && b.val == 0 {
				return a
			}
			// (x + c1) + c2
			if b.IsConst() && a.op == OpAdd && a.args[1].IsConst() {
				return mkBin(OpAdd, a.args[0], mkBV(w, a.args[1].val+b.val))
			}
			if a.IsConst() {
				a, b = b, a // constants to the right
				if a.op == OpAdd && a.args[1].IsConst() {
					return mkBin(OpAdd, a.args[0], mkBV(w, a.args[1].val+b.val))
				}
			}
		case OpSub:
			if b.IsConst() && b.val == 0 {
				return a
			}
			if a == b {
				return mkBV(w, 0)
			}
			if b.IsConst() {
				return mkBin(OpAdd, a, mkBV(w, -b.val))
			}
			// (x + c) - x
			if a.op == OpAdd && a.args[0] == b {
				return a.args[1]
			}
		case OpMul:
			if a.IsConst() {
				a, b = b, a
			}
			if b.IsConst() && b.val == 0 {
				return b
			}
			if b.IsConst() && b.val == 1 {
				return a
			}
		case OpBAnd:
			if a.IsConst() {
				a, b = b, a
			}
			if b.IsConst() && b.val == 0 {
				return b
			}
			if b.IsConst() && b.val == mask(w) {
				return a
			}
			if a == b {
				return a
			}
		case OpBOr, OpBXor:
			if a.IsConst() {
				a, b = b, a
			}
			if b.IsConst() && b.val == 0 {
				return a
			}
			if a == b && op == OpBOr {
				return a
			}
			if a == b && op == OpBXor {
				return mkBV(w, 0)
			}
			if op == OpBXor {
				if a.op == OpBXor {
					if a.args[0] == b {
						return a.args[1]
					}
					if a.args[1] == b {
						return a.args[0]
					}
				}
				if b.op == OpBXor {
					if b.args[0] == a {
						return b.args[1]
					}
					if b.args[1] == a {
						return b.args[0]
					}
				}
			}
		case OpShl, OpLshr, OpAshr:
			if b.IsConst() && b.val == 0 {
				return a
			}
			if a.IsConst() && a.val == 0 {
				return a
			}
			if b.IsConst() && b.val >= uint64(w) && op != OpAshr {
				return mkBV(w, 0)
			}
		}
	} else if op == OpBXor {
		if a == b {
			return mkBigBV(w, new(big.Int))
		}
		if a.op == OpBXor {
			if a.args[0] == b {
				return a.args[1]
			}
			if a.args[1] == b {
				return a.args[0]
			}
		}
		if b.op == OpBXor {
			if b.args[0] == a {
				return b.args[1]
			}
			if b.args[1] == a {
				return b.args[0]
			}
		}
		if a.IsConst() && b.IsConst() {
			return mkBigBV(w, new(big.Int).Xor(a.big, b.big))
		}
	} else if a.IsConst() && b.IsConst() {
		x, y := a.big, b.big
		r := new(big.Int)
		switch op {
		case OpAdd:
			return mkBigBV(w, r.Add(x, y))
		case OpSub:
			r.Sub(x, y)
			if r.Sign() < 0 {
				r.Add(r, new(big.Int).Lsh(big.NewInt(1), uint(w)))
			}
			return mkBigBV(w, r)
		case OpBAnd:
			return mkBigBV(w, r.And(x, y))
		case OpBOr:
			return mkBigBV(w, r.Or(x, y))
		case OpBXor:
			return mkBigBV(w, r.Xor(x, y))
		}
	}
	return TT.intern(&Term{op: op, sort: a.sort, args: []*Term{a, b}})
}

func mkUn(op Op, a *Term) *Term {
	w := a.sort.W
	if a.IsConst() && w <= 64 {
		switch op {
		case OpBNot:
			return mkBV(w, ^a.val)
		case OpNeg:
			return mkBV(w, -a.val)
		}
	}
	return TT.intern(&Term{op: op, sort: a.sort, args: []*Term{a}})
}

func mkCmp(op Op, a, b *Term) *Term {
	if a.sort != b.sort || a.sort.K != KBV {
		panic(fmt.Sprintf("mkCmp sort mismatch %v %v", a.sort, b.sort))
	}
	w := a.sort.W
	if a.IsConst() && b.IsConst() {
		if w <= 64 {
			switch op {
			case OpUlt:
				return mkBool(a.val < b.val)
			case OpUle:
				return mkBool(a.val <= b.val)
			case OpSlt:
				return mkBool(signExt(a.val, w) < signExt(b.val, w))
			case OpSle:
				return mkBool(signExt(a.val, w) <= signExt(b.val, w))
			}
		} else if op == OpUlt {
			return mkBool(a.big.Cmp(b.big) < 0)
		} else if op == OpUle {
			return mkBool(a.big.Cmp(b.big) <= 0)
		}
	}
	if a == b {
		return mkBool(op == OpUle || op == OpSle)
	}
	if w <= 64 {
		if op == OpUlt && b.IsConst() && b.val == 0 {
			return mkBool(false)
		}
		if op == OpUle && a.IsConst() && a.val == 0 {
			return mkBool(true)
		}
		// zero-extended small values against constants
		if a.op == OpZext && b.IsConst() && (op == OpUlt || op == OpUle || op == OpSlt || op == OpSle) {
			iw := a.args[0].sort.W
			if iw < w { // value in [0, 2^iw)
				bv := b.val
				if op == OpSlt || op == OpSle {
					if signExt(bv, w) < 0 {
						return mkBool(false)
					}
				}
				if bv > mask(iw) {
					return mkBool(true)
				}
			}
		}
		if b.op == OpZext && a.IsConst() && (op == OpUlt || op == OpUle || op == OpSlt || op == OpSle) {
			iw := b.args[0].sort.W
			if iw < w {
				av := a.val
				if op == OpSlt || op == OpSle {
					if signExt(av, w) < 0 {
						return mkBool(true)
					}
				}
				if av > mask(iw) {
					return mkBool(false)
				}
			}
		}
	}
	return TT.intern(&Term{op: op, sort: BoolSort, args: []*Term{a, b}})
}

func mkExtract(hi, lo int, a *Term) *Term {
	w := a.sort.W
	if hi >= w || lo < 0 || hi < lo {
		panic(fmt.Sprintf("mkExtract[%d:%d] of width %d", hi, lo, w))
	}
	if lo == 0 && hi == w-1 {
		return a
	}
	nw := hi - lo + 1
	if a.IsConst() {
		if w <= 64 {
			return mkBV(nw, a.val>>uint(lo))
		}
		return mkBigBV(nw, new(big.Int).Rsh(a.big, uint(lo)))
	}
	switch a.op {
	case OpExtract:
		return mkExtract(a.b+hi, a.b+lo, a.args[0])
	case OpConcat:
		// args[0] is the most significant piece
		pos := w
		var pieces []*Term
		for _, p := range a.args {
			pw := p.sort.W
			plo := pos - pw // piece covers [pos-1 : plo]
			phi := pos - 1
			pos = plo
			if phi < lo || plo > hi {
				continue
			}
			h, l := phi, plo
			if h > hi {
				h = hi
			}
			if l < lo {
				l = lo
			}
			pieces = append(pieces, mkExtract(h-plo, l-plo, p))
		}
		return mkConcat(pieces...)
	case OpZext:
		iw := a.args[0].sort.W
		if hi < iw {
			return mkExtract(hi, lo, a.args[0])
		}
		if lo >= iw {
			return mkBV(nw, 0)
		}
		return mkZext(nw, mkExtract(iw-1, lo, a.args[0]))
	case OpBAnd, OpBOr, OpBXor:
		return mkBin(a.op, mkExtract(hi, lo, a.args[0]), mkExtract(hi, lo, a.args[1]))
	case OpShl:
		if c, ok := a.args[1].ConstU(); ok && w <= 64 {
			sh := int(c)
			if lo >= sh {
				return mkExtract(hi-sh, lo-sh, a.args[0])
			}
			if hi < sh {
				return mkBV(nw, 0)
			}
		}
	case OpLshr:
		if c, ok := a.args[1].ConstU(); ok && w <= 64 {
			sh := int(c)
			if hi+sh < w {
				return mkExtract(hi+sh, lo+sh, a.args[0])
			}
			if lo+sh >= w {
				return mkBV(nw, 0)
			}
		}
	case OpIte:
		if a.args[1].IsConst() || a.args[2].IsConst() {
			return mkIte(a.args[0], mkExtract(hi, lo, a.args[1]), mkExtract(hi, lo, a.args[2]))
		}
	}
	return TT.intern(&Term{op: OpExtract, sort: BV(nw), args: []*Term{a}, a: hi, b: lo})
}

// mkConcat: first argument is most significant.
func mkConcat(xs ...*Term) *Term {
	var flat []*Term
	for _, x := range xs {
		if x.op == OpConcat {
			flat = append(flat, x.args...)
		} else {
			flat = append(flat, x)
		}
	}
	// merge adjacent constants and adjacent extracts of the same term
	var out []*Term
	for _, x := range flat {
		if len(out) > 0 {
			p := out[len(out)-1]
			if p.IsConst() && x.IsConst() {
				pw, xw := p.sort.W, x.sort.W
				pv, _ := p.ConstBig()
				xv, _ := x.ConstBig()
				v := new(big.Int).Lsh(pv, uint(xw))
				v.Or(v, xv)
				out[len(out)-1] = mkBigBV(pw+xw, v)
				continue
			}
			if p.op == OpExtract && x.op == OpExtract && p.args[0] == x.args[0] && p.b == x.a+1 {
				out[len(out)-1] = mkExtract(p.a, x.b, p.args[0])
				continue
			}
		}
		out = append(out, x)
	}
	if len(out) == 1 {
		return out[0]
	}
	w := 0
	for _, x := range out {
		w += x.sort.W
	}
	return TT.intern(&Term{op: OpConcat, sort: BV(w), args: out})
}

func mkZext(w int, a *Term) *Term {
	iw := a.sort.W
	if iw == w {
		return a
	}
	if iw > w {
		return mkExtract(w-1, 0, a)
	}
	if a.IsConst() {
		v, _ := a.ConstBig()
		return mkBigBV(w, v)
	}
	if a.op == OpZext {
		return mkZext(w, a.args[0])
	}
	return TT.intern(&Term{op: OpZext, sort: BV(w), args: []*Term{a}, a: w - iw})
}

func mkSext(w int, a *Term) *Term {
	iw := a.sort.W
	if iw == w {
		return a
	}
	if iw > w {
		return mkExtract(w-1, 0, a)
	}
	if a.IsConst() && w <= 64 {
		return mkBV(w, uint64(signExt(a.val, iw)))
	}
	if a.op == OpZext { // sign bit is zero
		return mkZext(w, a.args[0])
	}
	return TT.intern(&Term{op: OpSext, sort: BV(w), args: []*Term{a}, a: w - iw})
}

func mkSelect(arr, idx *Term) *Term {
	// read-over-write with syntactically decidable indices
	for arr.op == OpStore {
		si := arr.args[1]
		if si == idx {
			return arr.args[2]
		}
		if d := constDiff(si, idx); d != nil && *d != 0 {
			arr = arr.args[0]
			continue
		}
		break
	}
	if arr.op == OpConstArr {
		return arr.args[0]
	}
	return TT.intern(&Term{op: OpSelect, sort: BV(8), args: []*Term{arr, idx}})
}

// constDiff returns a-b when both are of the form base+const with the same base.
func constDiff(a, b *Term) *int64 {
	split := func(t *Term) (*Term, uint64) {
		if t.IsConst() {
			return nil, t.val
		}
		if t.op == OpAdd && t.args[1].IsConst() {
			return t.args[0], t.args[1].val
		}
		return t, 0
	}
	ab, ac := split(a)
	bb, bc := split(b)
	if ab == bb {
		d := int64(ac - bc)
		return &d
	}
	return nil
}

func mkStore(arr, idx, v *Term) *Term {
	return TT.intern(&Term{op: OpStore, sort: ArrSort, args: []*Term{arr, idx, v}})
}

func mkConstArr(v *Term) *Term {
	return TT.intern(&Term{op: OpConstArr, sort: ArrSort, args: []*Term{v}})
}

func mkUF(name string, res Sort, args ...*Term) *Term {
	d, ok := TT.ufs[name]
	if !ok {
		d = &UFDecl{name: name, res: res}
		for _, a := range args {
			d.args = append(d.args, a.sort)
		}
		TT.ufs[name] = d
		TT.uford = append(TT.uford, d)
	} else {
		if len(d.args) != len(args) {
			panic("UF arity mismatch " + name)
		}
		for i, a := range args {
			if d.args[i] != a.sort {
				panic(fmt.Sprintf("UF %s arg %d sort mismatch %v vs %v", name, i, d.args[i], a.sort))
			}
		}
	}
	return TT.intern(&Term{op: OpUF, sort: res, args: args, name: name})
}

// ---- printing --------------------------------------------------------------

func constSMT(t *Term) string {
	if t.sort.K == KBool {
		if t.val == 1 {
			return "true"
		}
		return "false"
	}
	w := t.sort.W
	if w%4 == 0 {
		if w <= 64 {
			return fmt.Sprintf("#x%0*x", w/4, t.val)
		}
		s := t.big.Text(16)
		return "#x" + strings.Repeat("0", w/4-len(s)) + s
	}
	if w <= 64 {
		return fmt.Sprintf("#b%0*b", w, t.val)
	}
	s := t.big.Text(2)
	return "#b" + strings.Repeat("0", w-len(s)) + s
}

func smtName(s string) string {
	return "|" + s + "|"
}

func (t *Term) ref() string {
	switch t.op {
	case OpConst:
		return constSMT(t)
	case OpVar:
		return smtName(t.name)
	}
	return fmt.Sprintf("t%d", t.id)
}

// body renders the defining expression of a non-leaf term using refs of args.
func (t *Term) body() string {
	var sb strings.Builder
	switch t.op {
	case OpExtract:
		fmt.Fprintf(&sb, "((_ extract %d %d) %s)", t.a, t.b, t.args[0].ref())
	case OpZext:
		fmt.Fprintf(&sb, "((_ zero_extend %d) %s)", t.a, t.args[0].ref())
	case OpSext:
		fmt.Fprintf(&sb, "((_ sign_extend %d) %s)", t.a, t.args[0].ref())
	case OpConstArr:
		fmt.Fprintf(&sb, "((as const (Array (_ BitVec 64) (_ BitVec 8))) %s)", t.args[0].ref())
	case OpUF:
		if len(t.args) == 0 {
			sb.WriteString(smtName(t.name))
		} else {
			sb.WriteString("(" + smtName(t.name))
			for _, a := range t.args {
				sb.WriteString(" " + a.ref())
			}
			sb.WriteString(")")
		}
	case OpConcat:
		// nested binary concat
		s := t.args[len(t.args)-1].ref()
		for i := len(t.args) - 2; i >= 0; i-- {
			s = "(concat " + t.args[i].ref() + " " + s + ")"
		}
		sb.WriteString(s)
	default:
		sb.WriteString("(" + opSMT[t.op])
		for _, a := range t.args {
			sb.WriteString(" " + a.ref())
		}
		sb.WriteString(")")
	}
	return sb.String()
}

// String gives a readable (fully expanded, depth-limited) rendering for evidence samples.
func (t *Term) String() string { return t.str(6) }

func (t *Term) str(d int) string {
	switch t.op {
	case OpConst:
		return constSMT(t)
	case OpVar:
		return t.name
	}
	if d == 0 {
		return fmt.Sprintf("t%d", t.id)
	}
	var parts []string
	for _, a := range t.args {
		parts = append(parts, a.str(d-1))
	}
	switch t.op {
	case OpExtract:
		return fmt.Sprintf("%s[%d:%d]", parts[0], t.a, t.b)
	case OpZext:
		return fmt.Sprintf("zext%d(%s)", t.sort.W, parts[0])
	case OpSext:
		return fmt.Sprintf("sext%d(%s)", t.sort.W, parts[0])
	case OpUF:
		return t.name + "(" + strings.Join(parts, ",") + ")"
	case OpConstArr:
		return "constarr(" + parts[0] + ")"
	}
	return "(" + opSMT[t.op] + " " + strings.Join(parts, " ") + ")"
}
