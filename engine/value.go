package main

import (
	"fmt"
	"go/types"

	"golang.org/x/tools/go/ssa"
)

// ---------------------------------------------------------------------------
// Values.  Scalars are *Term; everything with structure is concrete along a path.

type Value interface{}

// Ptr points at an object, optionally at one of its elements (idx) and then into
// nested struct fields / fixed arrays (path).  obj == 0 is the nil pointer.
type Ptr struct {
	obj  int
	idx  *Term // element index for objArr / objBytes; nil otherwise
	path []int
	fn   *ssa.Function // pointer to function-typed global etc. (unused)
}

type SliceVal struct {
	obj           int // 0 = nil slice
	off, len, cap *Term
	elem          types.Type
}

type StrVal struct {
	cells []*Term
}

type IfaceVal struct {
	typ types.Type // dynamic type; nil for nil interface
	val Value
}

type StructVal struct {
	fields []Value
}

type ArrayVal struct {
	elems []Value
}

type MapVal struct {
	obj int // 0 = nil map
}

type FuncVal struct {
	fn       *ssa.Function
	bindings []Value
	builtin  *ssa.Builtin
}

type TupleVal struct {
	vals []Value
}

// Opaque is an engine-level token (opaque errors, stdlib singletons).
type Opaque struct {
	id   int
	desc string
}

// ExtRef refers to an engine-level object (hash state, cipher, reader, ...).
type ExtRef struct {
	obj int
}

type MapIter struct {
	isStr bool
	str   *StrVal
	keys  []Value
	vals  []Value
	pos   int
}

type objKind uint8

const (
	objCell objKind = iota
	objArr
	objBytes
	objMap
	objExt
)

type mapEntry struct {
	key Value
	val Value
}

type Ext interface {
	cloneExt() Ext
}

type Object struct {
	id    int
	owner int
	kind  objKind
	typ   types.Type // cell: value type; arr/bytes: element type
	val   Value      // objCell
	elems []Value    // objArr
	// objBytes: either cells (concrete size) or a window on an array term
	cells           []*Term
	arr, base, size *Term
	entries         []mapEntry // objMap
	ext             Ext        // objExt
	isInput         bool
	shared          bool
	site            string
}

func (o *Object) clone(owner int) *Object {
	n := *o
	n.owner = owner
	if o.elems != nil {
		n.elems = append([]Value(nil), o.elems...)
	}
	if o.cells != nil {
		n.cells = append([]*Term(nil), o.cells...)
	}
	if o.entries != nil {
		n.entries = append([]mapEntry(nil), o.entries...)
	}
	if o.ext != nil {
		n.ext = o.ext.cloneExt()
	}
	return &n
}

// byteSize returns the size of a byte object as a term.
func (o *Object) byteSize() *Term {
	if o.cells != nil || o.arr == nil {
		return mkBV(64, uint64(len(o.cells)))
	}
	return o.size
}

// ---------------------------------------------------------------------------
// State

type Frame struct {
	fn      *ssa.Function
	env     map[ssa.Value]Value
	block   *ssa.BasicBlock
	prev    *ssa.BasicBlock
	ip      int
	call    *ssa.Call // call instruction in the caller awaiting the result (nil for entry)
	visits  map[int]int
	defers  []deferred
	cutSeen map[int]map[int]*Term // loop header index -> reader positions at first arrival
	retry   bool                  // on return the caller executes its call instruction again (Stringer calls made on behalf of a formatting stub)
	touch   map[ssa.Instruction]int // formatting call -> next variadic argument whose String / Error method is to be run
}

type deferred struct {
	fn   Value
	args []Value
}

type Draw struct {
	Kind string  `json:"kind"` // u8,u16,u32,u64,bool,bytes,input,int,rand,fault
	N    int     `json:"n,omitempty"`
	ts   []*Term // symbolic values (one per octet for bytes/input)
	cnst []uint64
}

type State struct {
	id       int
	frames   []*Frame
	heap     map[int]*Object
	globals  map[*ssa.Global]int
	pc       []*Term
	draws    []Draw
	forced   []choice
	made     []choice
	steps    int
	depth    int
	guards   []guard // C02-O3: conditions that must hold at every cipher call
	notes    []string
	hits     map[string]int
	randCnt  int
	faultAt  int // random-source failure injected at this read (-1 = never)
	cutDone  bool
	initDone bool
	frecs    []*frameRec // active frame-condition records (FrameBegin / FrameUnchanged)
	outputs  []outRec    // vr.Output values (translation validation against the native run)
}

type outRec struct {
	label string
	ts    []*Term
}

type frameRec struct {
	ids   map[int]bool
	dirty []string
}

type choice struct {
	v       int
	implied bool
}

type guard struct {
	label string
	cond  *Term
}

var nextObjID = 0
var nextStateID = 0

func (st *State) clone() *State {
	// both copies get a fresh ownership epoch: objects alive now are shared and copied on write
	nextStateID++
	st.id = nextStateID
	nextStateID++
	n := &State{
		id:       nextStateID,
		heap:     make(map[int]*Object, len(st.heap)),
		globals:  st.globals, // copy-on-write via globalsOwned below
		pc:       append([]*Term(nil), st.pc...),
		draws:    append([]Draw(nil), st.draws...),
		steps:    st.steps,
		depth:    st.depth + 1,
		guards:   append([]guard(nil), st.guards...),
		notes:    append([]string(nil), st.notes...),
		randCnt:  st.randCnt,
		faultAt:  st.faultAt,
		initDone: st.initDone,
	}
	n.outputs = append([]outRec(nil), st.outputs...)
	for _, f := range st.frecs {
		nf := &frameRec{ids: f.ids, dirty: append([]string(nil), f.dirty...)}
		n.frecs = append(n.frecs, nf)
	}
	for k, v := range st.heap {
		n.heap[k] = v
	}
	g := make(map[*ssa.Global]int, len(st.globals))
	for k, v := range st.globals {
		g[k] = v
	}
	n.globals = g
	n.hits = map[string]int{}
	for k, v := range st.hits {
		n.hits[k] = v
	}
	for _, f := range st.frames {
		nf := *f
		nf.env = make(map[ssa.Value]Value, len(f.env))
		for k, v := range f.env {
			nf.env[k] = v
		}
		nf.visits = make(map[int]int, len(f.visits))
		for k, v := range f.visits {
			nf.visits[k] = v
		}
		nf.defers = append([]deferred(nil), f.defers...)
		if f.touch != nil {
			nf.touch = map[ssa.Instruction]int{}
			for k, v := range f.touch {
				nf.touch[k] = v
			}
		}
		if f.cutSeen != nil {
			nf.cutSeen = map[int]map[int]*Term{}
			for k, v := range f.cutSeen {
				nf.cutSeen[k] = v
			}
		}
		n.frames = append(n.frames, &nf)
	}
	return n
}

func (st *State) newObject(kind objKind, typ types.Type) *Object {
	nextObjID++
	o := &Object{id: nextObjID, owner: st.id, kind: kind, typ: typ}
	st.heap[o.id] = o
	return o
}

func (st *State) obj(id int) *Object {
	o := st.heap[id]
	if o == nil {
		panic(engineErr("dangling object %d", id))
	}
	return o
}

// wobj returns the object for mutation (copy-on-write).
func (st *State) wobj(id int) *Object {
	o := st.obj(id)
	if o.owner != st.id {
		o = o.clone(st.id)
		st.heap[id] = o
	}
	return o
}

func (st *State) top() *Frame { return st.frames[len(st.frames)-1] }

// ---------------------------------------------------------------------------

type EngineError struct{ msg string }

func (e *EngineError) Error() string { return e.msg }

func engineErr(f string, a ...interface{}) *EngineError {
	return &EngineError{fmt.Sprintf(f, a...)}
}

// ---------------------------------------------------------------------------
// Types

func intWidth(b *types.Basic) (int, bool) {
	switch b.Kind() {
	case types.Int8:
		return 8, true
	case types.Int16:
		return 16, true
	case types.Int32, types.UntypedRune:
		return 32, true
	case types.Int64, types.Int, types.UntypedInt:
		return 64, true
	case types.Uint8:
		return 8, false
	case types.Uint16:
		return 16, false
	case types.Uint32:
		return 32, false
	case types.Uint64, types.Uint, types.Uintptr:
		return 64, false
	}
	return 0, false
}

func isByteElem(t types.Type) bool {
	b, ok := t.Underlying().(*types.Basic)
	return ok && b.Kind() == types.Uint8
}

func scalarSort(t types.Type) (Sort, bool) {
	b, ok := t.Underlying().(*types.Basic)
	if !ok {
		return Sort{}, false
	}
	if b.Info()&types.IsBoolean != 0 {
		return BoolSort, true
	}
	if w, _ := intWidth(b); w > 0 {
		return BV(w), true
	}
	return Sort{}, false
}

func isSigned(t types.Type) bool {
	b, ok := t.Underlying().(*types.Basic)
	if !ok {
		return false
	}
	_, s := intWidth(b)
	return s
}

func zeroValue(t types.Type) Value {
	switch u := t.Underlying().(type) {
	case *types.Basic:
		if u.Info()&types.IsBoolean != 0 {
			return mkBool(false)
		}
		if w, _ := intWidth(u); w > 0 {
			return mkBV(w, 0)
		}
		if u.Info()&types.IsString != 0 {
			return &StrVal{}
		}
		if u.Kind() == types.UnsafePointer {
			return &Ptr{}
		}
		if u.Kind() == types.UntypedNil {
			return nil
		}
		if u.Info()&types.IsFloat != 0 {
			return &Opaque{desc: "float0"}
		}
		panic(engineErr("zeroValue: unsupported basic type %s", t))
	case *types.Pointer:
		return &Ptr{}
	case *types.Slice:
		return &SliceVal{off: mkBV(64, 0), len: mkBV(64, 0), cap: mkBV(64, 0), elem: u.Elem()}
	case *types.Map:
		return &MapVal{}
	case *types.Interface:
		return &IfaceVal{}
	case *types.Signature:
		return &FuncVal{}
	case *types.Struct:
		sv := &StructVal{fields: make([]Value, u.NumFields())}
		for i := range sv.fields {
			sv.fields[i] = zeroValue(u.Field(i).Type())
		}
		return sv
	case *types.Array:
		av := &ArrayVal{elems: make([]Value, u.Len())}
		for i := range av.elems {
			av.elems[i] = zeroValue(u.Elem())
		}
		return av
	case *types.Chan:
		return &Opaque{desc: "nilchan"}
	case *types.Tuple:
		tv := &TupleVal{vals: make([]Value, u.Len())}
		for i := range tv.vals {
			tv.vals[i] = zeroValue(u.At(i).Type())
		}
		return tv
	}
	panic(engineErr("zeroValue: unsupported type %s", t))
}

func c64(v int) *Term { return mkBV(64, uint64(int64(v))) }

func concreteInt(t *Term) (int, bool) {
	if v, ok := t.ConstU(); ok {
		return int(signExt(v, t.sort.W)), true
	}
	return 0, false
}
