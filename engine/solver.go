package main

import (
	"bufio"
	"fmt"
	"io"
	"math/big"
	"os/exec"
	"strings"
	"time"
)

// Persistent SMT-LIB2 solver process.  Terms are introduced once per session by
// define-fun at assertion level 0; every query is (push)(assert..)(check-sat)(pop).

type Result int

const (
	Unsat Result = iota
	Sat
	Unknown
)

func (r Result) String() string { return [...]string{"unsat", "sat", "unknown"}[r] }

type Solver struct {
	kind      string // z3 | z3-new | cvc5
	timeoutMs int
	cmd       *exec.Cmd
	in        io.WriteCloser
	out       *bufio.Reader
	lines     chan string
	defined   map[int]bool
	ufDone    map[string]bool
	marker    int
	alive     bool

	// statistics
	Queries   int
	NSat      int
	NUnsat    int
	NUnknown  int
	Errors    int
	Time      time.Duration
	LastError string
	Restarts  int
	buf       strings.Builder
}

func NewSolver(kind string, timeoutMs int) *Solver {
	s := &Solver{kind: kind, timeoutMs: timeoutMs}
	s.start()
	return s
}

func (s *Solver) start() {
	var cmd *exec.Cmd
	switch s.kind {
	case "z3":
		cmd = exec.Command("z3", "-in", fmt.Sprintf("-t:%d", s.timeoutMs))
	case "z3-new":
		cmd = exec.Command("z3-new", "-in", fmt.Sprintf("-t:%d", s.timeoutMs))
	case "cvc5":
		cmd = exec.Command("cvc5", "--incremental", "--produce-models", "--lang=smt2",
			fmt.Sprintf("--tlimit-per=%d", s.timeoutMs))
	default:
		panic("unknown solver " + s.kind)
	}
	in, err := cmd.StdinPipe()
	if err != nil {
		panic(err)
	}
	out, err := cmd.StdoutPipe()
	if err != nil {
		panic(err)
	}
	cmd.Stderr = cmd.Stdout
	if err := cmd.Start(); err != nil {
		panic(err)
	}
	s.cmd, s.in, s.out = cmd, in, bufio.NewReaderSize(out, 1<<20)
	s.defined = map[int]bool{}
	s.ufDone = map[string]bool{}
	s.alive = true
	s.lines = make(chan string, 1024)
	go func(r *bufio.Reader, ch chan string) {
		for {
			l, err := r.ReadString('\n')
			if l != "" {
				ch <- strings.TrimRight(l, "\r\n")
			}
			if err != nil {
				close(ch)
				return
			}
		}
	}(s.out, s.lines)
	if s.kind == "cvc5" {
		s.buf.WriteString("(set-logic ALL)\n")
	} else {
		s.buf.WriteString("(set-option :produce-models true)\n")
	}
}

func (s *Solver) Close() {
	if s.alive {
		s.in.Close()
		s.cmd.Process.Kill()
		s.cmd.Wait()
		s.alive = false
	}
}

func (s *Solver) restart() {
	s.Close()
	s.Restarts++
	s.buf.Reset()
	s.start()
}

// define emits declarations / definitions for every sub-term not yet known to the session.
func (s *Solver) define(t *Term) {
	if t.op == OpConst || s.defined[t.id] {
		return
	}
	type fr struct {
		t *Term
		i int
	}
	stack := []fr{{t, 0}}
	for len(stack) > 0 {
		f := &stack[len(stack)-1]
		if f.t.op == OpConst || s.defined[f.t.id] {
			stack = stack[:len(stack)-1]
			continue
		}
		if f.i < len(f.t.args) {
			a := f.t.args[f.i]
			f.i++
			if a.op != OpConst && !s.defined[a.id] {
				stack = append(stack, fr{a, 0})
			}
			continue
		}
		x := f.t
		stack = stack[:len(stack)-1]
		s.defined[x.id] = true
		switch x.op {
		case OpVar:
			fmt.Fprintf(&s.buf, "(declare-const %s %s)\n", smtName(x.name), x.sort.SMT())
		default:
			if x.op == OpUF && !s.ufDone[x.name] {
				s.ufDone[x.name] = true
				d := TT.ufs[x.name]
				var as []string
				for _, a := range d.args {
					as = append(as, a.SMT())
				}
				fmt.Fprintf(&s.buf, "(declare-fun %s (%s) %s)\n", smtName(d.name), strings.Join(as, " "), d.res.SMT())
			}
			fmt.Fprintf(&s.buf, "(define-fun t%d () %s %s)\n", x.id, x.sort.SMT(), x.body())
		}
	}
}

// Check decides satisfiability of the conjunction of terms.  If want is non-empty and the
// result is sat, the values of those terms in the model are returned (as big.Int; bools as 0/1).
func (s *Solver) Check(conj []*Term, want []*Term) (Result, []*big.Int) {
	s.Queries++
	t0 := time.Now()
	defer func() { s.Time += time.Since(t0) }()
	if !s.alive {
		s.restart()
	}
	for _, c := range conj {
		s.define(c)
	}
	for _, w := range want {
		s.define(w)
	}
	s.marker++
	mk := fmt.Sprintf("M%d", s.marker)
	s.buf.WriteString("(push 1)\n")
	for _, c := range conj {
		if c.IsTrue() {
			continue
		}
		fmt.Fprintf(&s.buf, "(assert %s)\n", c.ref())
	}
	s.buf.WriteString("(check-sat)\n")
	fmt.Fprintf(&s.buf, "(echo \"%s\")\n", mk)
	resp, ok := s.flushAndRead(mk)
	if !ok {
		s.NUnknown++
		s.restart()
		return Unknown, nil
	}
	res := Unknown
	hasErr := false
	for _, l := range resp {
		switch {
		case l == "sat":
			res = Sat
		case l == "unsat":
			res = Unsat
		case l == "unknown" || l == "timeout":
			res = Unknown
		case strings.Contains(l, "(error") || strings.HasPrefix(l, "Error"):
			hasErr = true
			s.LastError = l
		}
	}
	if hasErr {
		s.Errors++
		res = Unknown
	}
	var vals []*big.Int
	if res == Sat && len(want) > 0 {
		s.marker++
		mk2 := fmt.Sprintf("M%d", s.marker)
		// ask in chunks to keep lines reasonable
		s.buf.WriteString("(get-value (")
		for i, w := range want {
			if i > 0 {
				s.buf.WriteString(" ")
			}
			s.buf.WriteString(w.ref())
		}
		s.buf.WriteString("))\n")
		fmt.Fprintf(&s.buf, "(echo \"%s\")\n", mk2)
		resp2, ok := s.flushAndRead(mk2)
		if !ok {
			s.NUnknown++
			s.restart()
			return Unknown, nil
		}
		txt := strings.Join(resp2, " ")
		if strings.Contains(txt, "(error") {
			s.Errors++
			s.LastError = txt
			res = Unknown
		} else {
			vals = parseValues(txt, len(want))
			if vals == nil {
				s.Errors++
				s.LastError = "unparsable get-value: " + truncate(txt, 300)
				res = Unknown
			}
		}
	}
	s.buf.WriteString("(pop 1)\n")
	switch res {
	case Sat:
		s.NSat++
	case Unsat:
		s.NUnsat++
	default:
		s.NUnknown++
	}
	return res, vals
}

func truncate(s string, n int) string {
	if len(s) > n {
		return s[:n] + "..."
	}
	return s
}

func (s *Solver) flushAndRead(marker string) ([]string, bool) {
	if _, err := io.WriteString(s.in, s.buf.String()); err != nil {
		s.LastError = "write: " + err.Error()
		return nil, false
	}
	if DumpSMT != nil {
		io.WriteString(DumpSMT, s.buf.String())
	}
	s.buf.Reset()
	var resp []string
	deadline := time.After(time.Duration(s.timeoutMs)*time.Millisecond*2 + 10*time.Second)
	for {
		select {
		case l, ok := <-s.lines:
			if !ok {
				s.LastError = "solver exited: " + strings.Join(resp, " | ")
				s.alive = false
				return resp, false
			}
			if strings.Contains(l, marker) {
				return resp, true
			}
			if l != "" {
				resp = append(resp, l)
			}
		case <-deadline:
			s.LastError = "hard timeout"
			return resp, false
		}
	}
}

var DumpSMT io.Writer

// parseValues parses "((t1 #x0a) (t2 true) (t3 (_ bv5 8)))" into n values in order.
func parseValues(txt string, n int) []*big.Int {
	toks := tokenize(txt)
	// structure: ( (name val) (name val) ... ) where val may be a parenthesised (_ bvN w)
	pos := 0
	next := func() string {
		if pos < len(toks) {
			pos++
			return toks[pos-1]
		}
		return ""
	}
	if next() != "(" {
		return nil
	}
	var vals []*big.Int
	for len(vals) < n {
		if next() != "(" {
			return nil
		}
		// name: either atom or parenthesised expression
		if tk := next(); tk == "(" {
			depth := 1
			for depth > 0 {
				t := next()
				if t == "" {
					return nil
				}
				if t == "(" {
					depth++
				} else if t == ")" {
					depth--
				}
			}
		}
		v := next()
		var bi *big.Int
		switch {
		case v == "true":
			bi = big.NewInt(1)
		case v == "false":
			bi = big.NewInt(0)
		case strings.HasPrefix(v, "#x"):
			bi, _ = new(big.Int).SetString(v[2:], 16)
		case strings.HasPrefix(v, "#b"):
			bi, _ = new(big.Int).SetString(v[2:], 2)
		case v == "(":
			// (_ bvN w)
			if next() != "_" {
				return nil
			}
			b := next()
			next()
			if next() != ")" {
				return nil
			}
			if !strings.HasPrefix(b, "bv") {
				return nil
			}
			bi, _ = new(big.Int).SetString(b[2:], 10)
		default:
			return nil
		}
		if bi == nil {
			return nil
		}
		if next() != ")" {
			return nil
		}
		vals = append(vals, bi)
	}
	return vals
}

func tokenize(s string) []string {
	var toks []string
	i := 0
	for i < len(s) {
		c := s[i]
		switch {
		case c == ' ' || c == '\t' || c == '\n':
			i++
		case c == '(' || c == ')':
			toks = append(toks, string(c))
			i++
		case c == '|':
			j := i + 1
			for j < len(s) && s[j] != '|' {
				j++
			}
			toks = append(toks, s[i:min(j+1, len(s))])
			i = j + 1
		default:
			j := i
			for j < len(s) && !strings.ContainsRune(" \t\n()", rune(s[j])) {
				j++
			}
			toks = append(toks, s[i:j])
			i = j
		}
	}
	return toks
}
