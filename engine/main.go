package main

import (
	"bufio"
	"encoding/json"
	"flag"
	"fmt"
	"go/token"
	"go/types"
	"os"
	"path/filepath"
	"runtime/debug"
	"sort"
	"strings"
	"time"

	"golang.org/x/tools/go/packages"
	"golang.org/x/tools/go/ssa"
	"golang.org/x/tools/go/ssa/ssautil"
)

func overlayFor(repo, harness string) (map[string][]byte, map[string]string) {
	ov := map[string][]byte{}
	rep := map[string]string{}
	filepath.Walk(harness, func(p string, info os.FileInfo, err error) error {
		if err != nil || info.IsDir() || !strings.HasSuffix(p, ".go") {
			return nil
		}
		rel, _ := filepath.Rel(harness, p)
		b, err := os.ReadFile(p)
		if err != nil {
			panic(err)
		}
		ov[filepath.Join(repo, rel)] = b
		rep[filepath.Join(repo, rel)] = p
		return nil
	})
	return ov, rep
}

type Loaded struct {
	prog *ssa.Program
	pkgs map[string]*ssa.Package
}

func load(repo, harness string) *Loaded {
	ov, _ := overlayFor(repo, harness)
	cfg := &packages.Config{
		Mode:    packages.LoadAllSyntax,
		Dir:     repo,
		Overlay: ov,
		Env:     append(os.Environ(), "GOFLAGS=-mod=mod", "GOPROXY=off", "GOSUMDB=off", "GOTOOLCHAIN=local"),
		Fset:    token.NewFileSet(),
	}
	pkgs, err := packages.Load(cfg, "./...", "./internal/verifrt")
	if err != nil {
		fmt.Fprintln(os.Stderr, "load:", err)
		os.Exit(2)
	}
	bad := false
	packages.Visit(pkgs, nil, func(p *packages.Package) {
		for _, e := range p.Errors {
			if isRepoPath(p.PkgPath) {
				fmt.Fprintln(os.Stderr, "package error:", p.PkgPath, e)
				bad = true
			}
		}
	})
	if bad {
		os.Exit(2)
	}
	prog, spkgs := ssautil.AllPackages(pkgs, ssa.InstantiateGenerics|ssa.SanityCheckFunctions&0)
	prog.Build()
	l := &Loaded{prog: prog, pkgs: map[string]*ssa.Package{}}
	for _, p := range spkgs {
		if p != nil {
			l.pkgs[p.Pkg.Path()] = p
		}
	}
	return l
}

func isRepoPath(p string) bool { return p == moduleName || strings.HasPrefix(p, moduleName+"/") }

func newExec(l *Loaded) *Exec {
	ex := &Exec{prog: l.prog, tokens: map[string]*Opaque{}}
	ex.opaqueT = types.NewNamed(types.NewTypeName(token.NoPos, nil, "engineOpaque", nil), types.NewStruct(nil, nil), nil)
	ex.extT = types.NewNamed(types.NewTypeName(token.NoPos, nil, "engineObject", nil), types.NewStruct(nil, nil), nil)
	return ex
}

// runInit executes the package initialisers of every repo package (dependency order) and returns
// the state all jobs start from; every object alive afterwards is tagged shared.
func (ex *Exec) runInit(l *Loaded) *State {
	st := &State{heap: map[int]*Object{}, globals: map[*ssa.Global]int{}, hits: map[string]int{}, faultAt: -1}
	nextStateID++
	st.id = nextStateID
	ex.res = &JobResult{Asserts: map[string]int{}, Covers: map[string]int{}}
	ex.cfg = JobConfig{Unwind: 100000}
	ex.vioSeen = map[string]bool{}
	ex.vioCount = map[string]int{}
	ex.funcs = map[string]bool{}
	ex.cuts = map[string]bool{}
	var paths []string
	for p := range l.pkgs {
		if isRepoPath(p) && !strings.HasSuffix(p, "/internal/verifrt") {
			paths = append(paths, p)
		}
	}
	sort.Strings(paths)
	func() {
		defer func() {
			if r := recover(); r != nil {
				if ee, ok := r.(*EngineError); ok {
					ex.initErr = "package initialisation: " + ee.msg
					return
				}
				panic(r)
			}
		}()
		for _, p := range paths {
			fn := l.pkgs[p].Func("init")
			ex.pushFrame(st, fn, nil, nil, nil)
			ex.runToEnd(st)
		}
	}()
	for _, o := range st.heap {
		o.shared = true
	}
	st.initDone = true
	if len(ex.res.Violations) > 0 {
		fmt.Fprintf(os.Stderr, "violations during init: %+v\n", ex.res.Violations[0])
	}
	return st
}

func (ex *Exec) runToEnd(st *State) {
	defer func() {
		if r := recover(); r != nil {
			if pe, ok := r.(pathEnd); ok && pe.reason == "done" {
				return
			}
			panic(r)
		}
	}()
	for {
		ex.step(st)
	}
}

func (ex *Exec) runJob(l *Loaded, tmpl *State, cfg JobConfig) (res *JobResult) {
	t0 := time.Now()
	res = &JobResult{Job: cfg, Asserts: map[string]int{}, Covers: map[string]int{}, Status: "ok"}
	ex.res = res
	ex.cfg = cfg
	ex.vioSeen = map[string]bool{}
	ex.vioCount = map[string]int{}
	ex.funcs = map[string]bool{}
	ex.cuts = map[string]bool{}
	ex.cutWithin = map[string]string{}
	ex.vecPos = 0
	for _, c := range cfg.Cut {
		if key, ok := ex.resolveCut(l, c); ok {
			ex.cuts[key] = true
			if parts := strings.Split(c, "|"); len(parts) == 3 {
				ex.cutWithin[key] = parts[2]
			}
		} else {
			res.CutMissing = append(res.CutMissing, c)
		}
	}
	if cfg.Unwind == 0 {
		ex.cfg.Unwind = 1000
	}
	if cfg.TimeoutMs == 0 {
		ex.cfg.TimeoutMs = 20000
	}
	solverKind := cfg.Solver
	if solverKind == "" {
		solverKind = "z3"
	}
	ex.solver = NewSolver(solverKind, ex.cfg.TimeoutMs)
	defer func() {
		s := ex.solver
		res.Queries, res.QSat, res.QUnsat, res.QUnknown = s.Queries, s.NSat, s.NUnsat, s.NUnknown
		res.SolverErrors, res.SolverLastError = s.Errors, s.LastError
		res.SolverMs = s.Time.Milliseconds()
		res.WallMs = time.Since(t0).Milliseconds()
		for f := range ex.funcs {
			res.Funcs = append(res.Funcs, f)
		}
		sort.Strings(res.Funcs)
		s.Close()
		if r := recover(); r != nil {
			if _, ok := r.(jobTimeout); ok && len(res.Violations) > 0 {
				res.Status = "violation"
				res.Stopped = fmt.Sprintf("exploration stopped 20 s after the first violation with %d states pending", len(ex.work))
				return
			}
			if _, ok := r.(jobTimeout); ok {
				res.Status = "undecided"
				res.Inconclusive = append(res.Inconclusive, fmt.Sprintf("job wall-time bound %d ms reached with %d states pending after %d paths", ex.cfg.WallMs, len(ex.work), res.Paths))
				return
			}
			if ee, ok := r.(*EngineError); ok {
				res.Status = "unsupported"
				res.Unsupported = ee.msg
				if os.Getenv("GOSMT_DEBUG") != "" {
					res.Unsupported += "\n" + string(debug.Stack())
				}
				return
			}
			res.Status = "unsupported"
			res.Unsupported = fmt.Sprintf("engine panic: %v\n%s", r, debug.Stack())
		}
	}()
	if ex.initErr != "" {
		panic(engineErr("%s", ex.initErr))
	}
	pkg := l.pkgs[cfg.Pkg]
	if pkg == nil {
		panic(engineErr("package %s not loaded", cfg.Pkg))
	}
	fn := pkg.Func(cfg.Entry)
	if fn == nil {
		panic(engineErr("entry %s.%s not found", cfg.Pkg, cfg.Entry))
	}
	st := tmpl.clone()
	ex.pushFrame(st, fn, nil, nil, nil)
	ex.work = []*State{st}
	if ex.cfg.WallMs == 0 {
		ex.cfg.WallMs = 300000
	}
	ex.started = time.Now()
	ex.deadline = time.Now().Add(time.Duration(ex.cfg.WallMs) * time.Millisecond)
	for len(ex.work) > 0 {
		s := ex.work[len(ex.work)-1]
		ex.work = ex.work[:len(ex.work)-1]
		ex.runPath(s)
		res.Paths++
		if cfg.MaxPaths > 0 && res.Paths >= cfg.MaxPaths && len(ex.work) > 0 {
			res.Inconclusive = append(res.Inconclusive, fmt.Sprintf("path bound %d reached with %d states pending", cfg.MaxPaths, len(ex.work)))
			break
		}
	}
	if len(res.Violations) > 0 {
		res.Status = "violation"
	} else if len(res.Inconclusive) > 0 {
		res.Status = "undecided"
	}
	return res
}

// resolveCut maps "function|loop statement text" to the loop-header block of the current source.
func (ex *Exec) resolveCut(l *Loaded, spec string) (string, bool) {
	parts := strings.Split(spec, "|")
	if len(parts) < 2 {
		return "", false
	}
	var fn *ssa.Function
	for f := range ssautil.AllFunctions(l.prog) {
		if f.String() == parts[0] {
			fn = f
			break
		}
	}
	if fn == nil {
		return "", false
	}
	for _, b := range fn.Blocks {
		isHeader := false
		for _, p := range b.Preds {
			if p.Index >= b.Index && b.Dominates(p) {
				isHeader = true
			}
		}
		if !isHeader {
			continue
		}
		pos := token.NoPos
		for _, in := range b.Instrs {
			if _, isPhi := in.(*ssa.Phi); isPhi {
				continue
			}
			if in.Pos().IsValid() {
				pos = in.Pos()
				break
			}
		}
		if !pos.IsValid() {
			continue
		}
		pp := l.prog.Fset.Position(pos)
		src, err := os.ReadFile(pp.Filename)
		if err != nil {
			continue
		}
		lines := strings.Split(string(src), "\n")
		if pp.Line-1 < len(lines) && strings.TrimSpace(lines[pp.Line-1]) == strings.TrimSpace(parts[1]) {
			return fmt.Sprintf("%s#%d", fn.String(), b.Index), true
		}
	}
	return "", false
}

func (ex *Exec) runPath(st *State) {
	defer func() {
		if r := recover(); r != nil {
			if pe, ok := r.(pathEnd); ok {
				if pe.reason == "done" && !ex.cfg.Concrete {
					// a complete path: its model is a full replay vector (witness for vacuity / translation validation)
					func() {
						defer func() { recover() }()
						if len(st.outputs) > 0 {
							ex.witness(st, "path-end-out")
						} else {
							ex.witness(st, "path-end")
						}
					}()
				}
				if len(ex.res.Samples) < 3 && pe.reason == "done" && len(st.pc) > 0 {
					var cs []string
					for i, c := range st.pc {
						if i >= 6 {
							cs = append(cs, fmt.Sprintf("... (%d conjuncts)", len(st.pc)))
							break
						}
						cs = append(cs, truncate(c.String(), 160))
					}
					ex.res.Samples = append(ex.res.Samples, "path condition: "+strings.Join(cs, " AND "))
				}
				return
			}
			panic(r)
		}
	}()
	for {
		ex.step(st)
	}
}

func main() {
	repo := flag.String("repo", "/repo", "repository root")
	harness := flag.String("harness", "/verif/harness", "harness overlay root")
	jobsFile := flag.String("jobs", "", "JSON file with a list of jobs ('-' = stdin, one JSON job per line, streaming)")
	out := flag.String("out", "", "results file (JSON lines); default stdout")
	dump := flag.String("dump-smt", "", "write all solver input to this file")
	flag.Parse()
	RepoRoot = strings.TrimRight(*repo, "/")
	TT = NewTermTable()
	tTrue, tFalse = mkBool(true), mkBool(false)
	if *dump != "" {
		f, _ := os.Create(*dump)
		DumpSMT = f
		defer f.Close()
	}
	t0 := time.Now()
	l := load(*repo, *harness)
	ex := newExec(l)
	tmpl := ex.runInit(l)
	fmt.Fprintf(os.Stderr, "loaded and initialised in %.1fs (%d objects)\n", time.Since(t0).Seconds(), len(tmpl.heap))
	var w *bufio.Writer
	if *out == "" {
		w = bufio.NewWriter(os.Stdout)
	} else {
		f, err := os.Create(*out)
		if err != nil {
			panic(err)
		}
		defer f.Close()
		w = bufio.NewWriter(f)
	}
	defer w.Flush()
	emit := func(r *JobResult) {
		b, _ := json.Marshal(r)
		w.Write(b)
		w.WriteString("\n")
		w.Flush()
	}
	if *jobsFile == "-" {
		sc := bufio.NewScanner(os.Stdin)
		sc.Buffer(make([]byte, 1<<20), 1<<26)
		for sc.Scan() {
			line := strings.TrimSpace(sc.Text())
			if line == "" {
				continue
			}
			var j JobConfig
			if err := json.Unmarshal([]byte(line), &j); err != nil {
				fmt.Fprintln(os.Stderr, "bad job:", err)
				continue
			}
			emit(ex.runJob(l, tmpl, j))
		}
		return
	}
	b, err := os.ReadFile(*jobsFile)
	if err != nil {
		panic(err)
	}
	var jobs []JobConfig
	if err := json.Unmarshal(b, &jobs); err != nil {
		panic(err)
	}
	for _, j := range jobs {
		emit(ex.runJob(l, tmpl, j))
	}
}
