package main

import (
	"fmt"
	"go/constant"
	"go/token"
	"go/types"
	"math/big"
	"sort"
	"strings"
	"time"

	"golang.org/x/tools/go/ssa"
)

// ---------------------------------------------------------------------------
// Symbolic executor over go/ssa: path-based, explicit frame stack, forking by state clone.

type Violation struct {
	Label  string            `json:"label"`
	Site   string            `json:"site"`
	Func   string            `json:"func"`
	Detail string            `json:"detail,omitempty"`
	Model  []DrawValue       `json:"model,omitempty"`
	AltModel []DrawValue     `json:"alt_model,omitempty"` // the solver's own (non-generic) model
	Notes  []string          `json:"notes,omitempty"`
	Extra  map[string]string `json:"extra,omitempty"`
	PCSize int               `json:"pc_size"`
}

type DrawValue struct {
	Kind string `json:"kind"`
	Hex  string `json:"hex,omitempty"` // bytes / input / rand
	Val  uint64 `json:"val,omitempty"`
	Cap  int    `json:"cap,omitempty"` // input: spare capacity chosen by the model
	N    int    `json:"n,omitempty"`
}

type JobConfig struct {
	Pkg        string   `json:"pkg"`
	Entry      string   `json:"entry"`
	Params     []int    `json:"params"`
	SParams    []string `json:"sparams,omitempty"`
	Solver     string   `json:"solver"`
	TimeoutMs  int      `json:"timeout_ms"`
	Unwind     int      `json:"unwind"`
	Cut        []string `json:"cut,omitempty"`
	Strict     bool     `json:"strict_slice_len"` // C04 (c): re-slicing input past len is an over-read
	MaxPaths   int      `json:"max_paths"`
	MaxSteps   int      `json:"max_steps"`
	Monitor    bool     `json:"monitor_shared"` // C18 write monitor
	Concrete   bool     `json:"concrete,omitempty"`
	Vector     []uint64 `json:"vector,omitempty"`
	WitnessFor []string `json:"witness_for,omitempty"`
	WallMs     int      `json:"wall_ms,omitempty"`
	Tag        string   `json:"tag,omitempty"` // echoed back (the runner's bookkeeping)
	UnwindAssumeN int     `json:"unwind_assume_n,omitempty"` // back edges taken before such a path ends (default 4)
	UnwindAssume []string `json:"unwind_assume,omitempty"` // loops of these functions: reaching the bound ends the path (assumption), e.g. probabilistic rejection sampling
	BytesLens  []int    `json:"bytes_lens,omitempty"` // big.Int.Bytes(): explore only these minimal lengths of a symbolic value
	BytesFull  bool     `json:"bytes_full,omitempty"` // assume DH results have no leading zero octet (C09 decides those cases)
	MapOrders  bool     `json:"map_orders,omitempty"` // fork over map iteration orders (C14 / C20 determinism)
}

type JobResult struct {
	Job          JobConfig    `json:"job"`
	Status       string       `json:"status"` // ok | violation | undecided | unsupported
	Paths        int          `json:"paths"`
	PathsCut     int          `json:"paths_cut"`
	PathsInfeas  int          `json:"paths_infeasible"`
	Steps        int          `json:"steps"`
	Forks        int          `json:"forks"`
	Obligations  int          `json:"obligations"`
	Folded       int          `json:"obligations_folded"`
	Discharged   int          `json:"discharged"`
	Asserts      map[string]int `json:"assert_hits"`
	Covers       map[string]int `json:"cover_hits"`
	Violations   []*Violation `json:"violations"`
	Inconclusive []string     `json:"inconclusive,omitempty"`
	Unwinds      []string     `json:"unwind_hits,omitempty"`
	Unsupported  string       `json:"unsupported,omitempty"`
	Witnesses    []*Violation `json:"witnesses,omitempty"`
	Queries      int          `json:"queries"`
	QSat         int          `json:"q_sat"`
	QUnsat       int          `json:"q_unsat"`
	QUnknown     int          `json:"q_unknown"`
	SolverErrors int          `json:"solver_errors"`
	SolverLastError string    `json:"solver_last_error,omitempty"`
	SolverMs     int64        `json:"solver_ms"`
	WallMs       int64        `json:"wall_ms"`
	Funcs        []string     `json:"funcs"`
	Samples      []string     `json:"samples,omitempty"`
	Outputs      []string     `json:"outputs,omitempty"`
	MapOrders    string       `json:"map_orders,omitempty"`
	CutMissing   []string     `json:"cut_missing,omitempty"`
	Stopped      string       `json:"stopped,omitempty"`
	UnwindAssumed int         `json:"unwind_assumed,omitempty"`
}

type Exec struct {
	initErr string // unsupported construct met while running the package initialisers
	prog    *ssa.Program
	solver  *Solver
	cfg     JobConfig
	res     *JobResult
	work    []*State
	vioSeen map[string]bool
	vioCount map[string]int
	funcs   map[string]bool
	repoMod string
	cuts    map[string]bool
	cutWithin map[string]string
	opaqueT types.Type
	extT    types.Type
	tokens  map[string]*Opaque
	vecPos  int
	deadline time.Time
	started  time.Time
	rng      uint64
}

type pathEnd struct{ reason string }
type jobTimeout struct{}

const moduleName = "github.com/free5gc/ike"

var RepoRoot = "/repo"

func isRepoPkg(p *types.Package) bool {
	return p != nil && (p.Path() == moduleName || strings.HasPrefix(p.Path(), moduleName+"/")) &&
		!strings.HasSuffix(p.Path(), "/internal/verifrt")
}

func (ex *Exec) endPath(reason string) { panic(pathEnd{reason}) }

func sitePos(prog *ssa.Program, pos token.Pos) string {
	if !pos.IsValid() {
		return "?"
	}
	p := prog.Fset.Position(pos)
	f := p.Filename
	if strings.HasPrefix(f, RepoRoot+"/") {
		f = f[len(RepoRoot)+1:]
	}
	return fmt.Sprintf("%s:%d", f, p.Line)
}

func (ex *Exec) instrSite(st *State, in ssa.Instruction) (string, string) {
	pos := in.Pos()
	if !pos.IsValid() {
		// walk forward/backward for a position in the same block
		b := in.Block()
		for _, x := range b.Instrs {
			if x.Pos().IsValid() {
				pos = x.Pos()
				if x == in {
					break
				}
			}
		}
	}
	return sitePos(ex.prog, pos), in.Parent().String()
}

// repoSite finds the innermost frame that is in repo (non-harness) code, for attributing violations.
func (ex *Exec) repoSite(st *State) (string, string) {
	for i := len(st.frames) - 1; i >= 0; i-- {
		fr := st.frames[i]
		if fr.fn.Pkg != nil && isRepoPkg(fr.fn.Pkg.Pkg) && !strings.Contains(fr.fn.Pkg.Pkg.Path(), "internal/verifrt") {
			in := fr.block.Instrs[fr.ip]
			s, f := ex.instrSite(st, in)
			return s, f
		}
	}
	fr := st.top()
	return ex.instrSite(st, fr.block.Instrs[fr.ip])
}

// ---------------------------------------------------------------------------
// path condition, feasibility, choices, obligations

func (st *State) addPC(c *Term) {
	if c.IsTrue() {
		return
	}
	if c.op == OpAnd {
		st.pc = append(st.pc, c.args...)
		return
	}
	st.pc = append(st.pc, c)
}

func (ex *Exec) check(st *State, extra *Term, want []*Term) (Result, []*big.Int) {
	conj := make([]*Term, 0, len(st.pc)+1)
	conj = append(conj, st.pc...)
	if extra != nil {
		conj = append(conj, extra)
	}
	return ex.solver.Check(conj, want)
}

// choose picks one of the alternatives for this state and forks clones for the other feasible ones.
// It must be called before the current instruction mutates the state.
func (ex *Exec) choose(st *State, conds []*Term, exhaustive bool) int {
	if len(st.forced) > 0 {
		c := st.forced[0]
		st.forced = st.forced[1:]
		st.made = append(st.made, c)
		if !c.implied {
			st.addPC(conds[c.v])
		}
		return c.v
	}
	var feas []int
	for i, c := range conds {
		if c.IsFalse() {
			continue
		}
		if c.IsTrue() {
			feas = append(feas, i)
			continue
		}
		if exhaustive && i == len(conds)-1 && len(feas) == 0 {
			feas = append(feas, i)
			continue
		}
		r, _ := ex.check(st, c, nil)
		if r != Unsat {
			feas = append(feas, i)
		}
	}
	if len(feas) == 0 {
		ex.res.PathsInfeas++
		ex.endPath("infeasible")
	}
	if len(feas) == 1 && exhaustive {
		// implied by the path condition: nothing to add
		st.made = append(st.made, choice{feas[0], true})
		return feas[0]
	}
	for _, i := range feas[1:] {
		cl := st.clone()
		cl.forced = append(append([]choice(nil), st.made...), choice{i, false})
		cl.made = nil
		ex.work = append(ex.work, cl)
		ex.res.Forks++
	}
	i := feas[0]
	st.made = append(st.made, choice{i, false})
	st.addPC(conds[i])
	return i
}

func (ex *Exec) chooseForced(st *State, conds []*Term, exhaustive bool) int {
	return ex.choose(st, conds, exhaustive)
}

// branch decides a boolean condition, forking when both outcomes are feasible.
func (ex *Exec) branch(st *State, c *Term) bool {
	if c.IsTrue() {
		return true
	}
	if c.IsFalse() {
		return false
	}
	return ex.chooseForced(st, []*Term{c, mkNot(c)}, true) == 0
}

func (ex *Exec) drawTerms(st *State) []*Term {
	var ts []*Term
	for _, d := range st.draws {
		ts = append(ts, d.ts...)
	}
	return ts
}

func (ex *Exec) modelOf(st *State, vals []*big.Int) []DrawValue {
	var out []DrawValue
	p := 0
	for _, d := range st.draws {
		dv := DrawValue{Kind: d.Kind}
		switch d.Kind {
		case "bytes", "rand", "cbcdec":
			b := make([]byte, len(d.ts))
			for i := range d.ts {
				b[i] = byte(vals[p].Uint64())
				p++
			}
			dv.Hex = fmt.Sprintf("%x", b)
		case "input":
			// ts = cap slack, then n+maxslack octets
			slack := int(vals[p].Uint64())
			p++
			b := make([]byte, len(d.ts)-1)
			for i := range b {
				b[i] = byte(vals[p].Uint64())
				p++
			}
			dv.Cap = slack
			dv.N = d.N
			dv.Hex = fmt.Sprintf("%x", b)
		case "randint":
			dv.Hex = vals[p].Text(16)
			p++
		default:
			if d.cnst != nil {
				dv.Val = d.cnst[0]
			} else if len(d.ts) == 1 {
				dv.Val = vals[p].Uint64()
				p++
			}
		}
		out = append(out, dv)
	}
	return out
}

func (ex *Exec) recordViolation(st *State, label string, neg *Term, detail string) {
	site, fn := ex.repoSite(st)
	key := label + "@" + site
	// up to four instances per obligation and job (from different paths): the first model is not always
	// the one that reproduces natively (a path whose failure lives only in the model of an uninterpreted
	// function may come first)
	if ex.vioCount[key] >= 4 {
		return
	}
	want := ex.drawTerms(st)
	base := append([]*Term(nil), st.pc...)
	if neg != nil {
		base = append(base, neg)
	}
	r, vals := ex.solver.Check(base, want)
	if r == Unknown {
		ex.res.Inconclusive = append(ex.res.Inconclusive, fmt.Sprintf("%s at %s: model query unknown (%s)", label, site, ex.solver.LastError))
		return
	}
	if r == Unsat {
		return
	}
	ex.vioSeen[key] = true
	ex.vioCount[key]++
	var rawVals []*big.Int
	// Generic model: octets the counterexample does not depend on get arbitrary non-trivial values instead
	// of the solver's default (usually zero), so that a native replay does not pass by coincidence (e.g. an
	// all-zero key that HMAC's own zero padding makes equivalent to its truncation).
	if len(want) > 0 {
		kept := base
		budget := 48
		var try func(ts []*Term)
		try = func(ts []*Term) {
			if budget <= 0 || len(ts) == 0 {
				return
			}
			var eqs []*Term
			for _, t := range ts {
				if t.IsConst() || t.sort.K != KBV || t.sort.W != 8 {
					continue
				}
				ex.rng = ex.rng*6364136223846793005 + 1442695040888963407
				eqs = append(eqs, mkEq(t, mkBV(8, 1+(ex.rng>>33)%254)))
			}
			if len(eqs) == 0 {
				return
			}
			budget--
			c := mkAnd(eqs...)
			rr, _ := ex.solver.Check(append(append([]*Term(nil), kept...), c), nil)
			if rr == Sat {
				kept = append(kept, c)
				return
			}
			if len(ts) > 1 {
				try(ts[:len(ts)/2])
				try(ts[len(ts)/2:])
			}
		}
		for _, d := range st.draws {
			switch d.Kind {
			case "bytes", "rand":
				try(d.ts)
			case "input":
				try(d.ts[1:])
			}
		}
		if len(kept) > len(base) {
			if r2, v2 := ex.solver.Check(kept, want); r2 == Sat && v2 != nil {
				rawVals = vals
				vals = v2
			}
		}
	}
	v := &Violation{Label: label, Site: site, Func: fn, Detail: detail, Notes: append([]string(nil), st.notes...), PCSize: len(st.pc)}
	if vals != nil || len(want) == 0 {
		v.Model = ex.modelOf(st, vals)
		if rawVals != nil {
			v.AltModel = ex.modelOf(st, rawVals)
		}
	}
	ex.res.Violations = append(ex.res.Violations, v)
}

// oblige checks that safe holds on every continuation of this path; a feasible failure is a violation
// and the path continues under safe.
func (ex *Exec) oblige(st *State, safe *Term, label string, detail string) {
	if safe.IsTrue() {
		ex.res.Folded++
		return
	}
	ex.res.Obligations++
	if safe.IsFalse() {
		ex.recordViolation(st, label, nil, detail)
		ex.endPath("violation:" + label)
	}
	neg := mkNot(safe)
	r, _ := ex.check(st, neg, nil)
	switch r {
	case Unsat:
		ex.res.Discharged++
		return
	case Unknown:
		site, _ := ex.repoSite(st)
		ex.res.Inconclusive = append(ex.res.Inconclusive, fmt.Sprintf("%s at %s: unknown (%s)", label, site, ex.solver.LastError))
	case Sat:
		ex.recordViolation(st, label, neg, detail)
	}
	r2, _ := ex.check(st, safe, nil)
	if r2 == Unsat {
		ex.endPath("violation:" + label)
	}
	st.addPC(safe)
}

// concretize enumerates the feasible values of t under the path condition and forks over them.
func (ex *Exec) concretize(st *State, t *Term, what string, limit int) int {
	if v, ok := concreteInt(t); ok {
		return v
	}
	if len(st.forced) > 0 {
		// replaying a clone: the forced entry is the value itself (offset to keep it non-negative)
		c := st.forced[0]
		st.forced = st.forced[1:]
		st.made = append(st.made, c)
		st.addPC(mkEq(t, mkBV(t.sort.W, uint64(c.v))))
		return c.v
	}
	var vals []int
	var block []*Term
	for {
		conj := append(append([]*Term(nil), st.pc...), block...)
		r, m := ex.solver.Check(conj, []*Term{t})
		if r == Unsat {
			break
		}
		if r == Unknown {
			panic(engineErr("concretize(%s): solver unknown: %s", what, ex.solver.LastError))
		}
		v := int(signExt(m[0].Uint64(), t.sort.W))
		vals = append(vals, v)
		block = append(block, mkNot(mkEq(t, mkBV(t.sort.W, uint64(v)))))
		if len(vals) > limit {
			panic(engineErr("concretize(%s): more than %d feasible values", what, limit))
		}
	}
	if len(vals) == 0 {
		ex.res.PathsInfeas++
		ex.endPath("infeasible")
	}
	sort.Ints(vals)
	for _, v := range vals[1:] {
		cl := st.clone()
		cl.forced = append(append([]choice(nil), st.made...), choice{v, false})
		cl.made = nil
		ex.work = append(ex.work, cl)
		ex.res.Forks++
	}
	v := vals[0]
	st.made = append(st.made, choice{v, false})
	st.addPC(mkEq(t, mkBV(t.sort.W, uint64(v))))
	return v
}

// ---------------------------------------------------------------------------
// value access

func (ex *Exec) constValue(c *ssa.Const) Value {
	t := c.Type()
	if c.Value == nil {
		return zeroValue(t)
	}
	switch u := t.Underlying().(type) {
	case *types.Basic:
		if u.Info()&types.IsBoolean != 0 {
			return mkBool(constant.BoolVal(c.Value))
		}
		if w, _ := intWidth(u); w > 0 {
			if v, ok := constant.Int64Val(constant.ToInt(c.Value)); ok {
				return mkBV(w, uint64(v))
			}
			v, _ := constant.Uint64Val(constant.ToInt(c.Value))
			return mkBV(w, v)
		}
		if u.Info()&types.IsString != 0 {
			return strConst(constant.StringVal(c.Value))
		}
		if u.Info()&types.IsFloat != 0 {
			return &Opaque{desc: "float:" + c.Value.String()}
		}
	}
	panic(engineErr("constValue: unsupported constant %s of type %s", c, t))
}

var strCache = map[string]*StrVal{}

func strConst(s string) *StrVal {
	if v, ok := strCache[s]; ok {
		return v
	}
	sv := &StrVal{cells: make([]*Term, len(s))}
	for i := 0; i < len(s); i++ {
		sv.cells[i] = mkBV(8, uint64(s[i]))
	}
	strCache[s] = sv
	return sv
}

func (sv *StrVal) concrete() (string, bool) {
	b := make([]byte, len(sv.cells))
	for i, c := range sv.cells {
		v, ok := c.ConstU()
		if !ok {
			return "", false
		}
		b[i] = byte(v)
	}
	return string(b), true
}

func (ex *Exec) get(st *State, fr *Frame, v ssa.Value) Value {
	switch x := v.(type) {
	case *ssa.Const:
		return ex.constValue(x)
	case *ssa.Global:
		return &Ptr{obj: ex.globalObj(st, x)}
	case *ssa.Function:
		return &FuncVal{fn: x}
	case *ssa.Builtin:
		return &FuncVal{builtin: x}
	}
	r, ok := fr.env[v]
	if !ok {
		panic(engineErr("unbound SSA value %s in %s", v.Name(), fr.fn))
	}
	return r
}

func (ex *Exec) token(name string) *Opaque {
	if t, ok := ex.tokens[name]; ok {
		return t
	}
	t := &Opaque{id: len(ex.tokens) + 1, desc: name}
	ex.tokens[name] = t
	return t
}

func (ex *Exec) globalObj(st *State, g *ssa.Global) int {
	if id, ok := st.globals[g]; ok {
		return id
	}
	t := g.Type().(*types.Pointer).Elem()
	o := ex.allocFor(st, t)
	o.site = "global " + g.String()
	o.shared = true
	if !isRepoPkg(g.Pkg.Pkg) {
		// stdlib / dependency package state is not initialised by the executor: interface-typed
		// variables (io.EOF, rand.Reader, ...) become unique opaque tokens.
		if _, isIface := t.Underlying().(*types.Interface); isIface && o.kind == objCell {
			o.val = &IfaceVal{typ: ex.opaqueT, val: ex.token(g.String())}
		}
	}
	st.globals[g] = o.id
	return o.id
}

// allocFor creates a zero-initialised object holding a value of type t.
func (ex *Exec) allocFor(st *State, t types.Type) *Object {
	if a, ok := t.Underlying().(*types.Array); ok {
		if isByteElem(a.Elem()) {
			o := st.newObject(objBytes, a.Elem())
			o.cells = make([]*Term, a.Len())
			z := mkBV(8, 0)
			for i := range o.cells {
				o.cells[i] = z
			}
			return o
		}
		o := st.newObject(objArr, a.Elem())
		o.elems = make([]Value, a.Len())
		for i := range o.elems {
			o.elems[i] = zeroValue(a.Elem())
		}
		return o
	}
	o := st.newObject(objCell, t)
	o.val = zeroValue(t)
	return o
}

func navigate(v Value, path []int) Value {
	for _, i := range path {
		switch x := v.(type) {
		case *StructVal:
			v = x.fields[i]
		case *ArrayVal:
			v = x.elems[i]
		default:
			panic(engineErr("navigate: path through %T", v))
		}
	}
	return v
}

func updatePath(v Value, path []int, nv Value) Value {
	if len(path) == 0 {
		return nv
	}
	switch x := v.(type) {
	case *StructVal:
		n := &StructVal{fields: append([]Value(nil), x.fields...)}
		n.fields[path[0]] = updatePath(x.fields[path[0]], path[1:], nv)
		return n
	case *ArrayVal:
		n := &ArrayVal{elems: append([]Value(nil), x.elems...)}
		n.elems[path[0]] = updatePath(x.elems[path[0]], path[1:], nv)
		return n
	}
	panic(engineErr("updatePath: path through %T", v))
}

// byteAt reads octet idx (64-bit term, relative to the object start) of a byte object.
func (ex *Exec) byteAt(st *State, o *Object, idx *Term) *Term {
	if o.cells != nil {
		if i, ok := concreteInt(idx); ok {
			if i < 0 || i >= len(o.cells) {
				panic(engineErr("byteAt: index %d outside object of %d octets", i, len(o.cells)))
			}
			return o.cells[i]
		}
		o = ex.materialize(st, o.id)
	}
	return mkSelect(o.arr, mkBin(OpAdd, o.base, idx))
}

// materialize turns a cells object into a window on a fresh array constrained cell by cell.
func (ex *Exec) materialize(st *State, id int) *Object {
	o := st.wobj(id)
	if o.cells == nil {
		return o
	}
	arr := freshVar("mem", ArrSort)
	for i, c := range o.cells {
		st.addPC(mkEq(mkSelect(arr, c64(i)), c))
	}
	o.size = c64(len(o.cells))
	o.base = c64(0)
	o.arr = arr
	o.cells = nil
	return o
}

func (ex *Exec) setByte(st *State, id int, idx *Term, v *Term) {
	o := st.wobj(id)
	ex.checkWrite(st, o)
	if o.cells != nil {
		if i, ok := concreteInt(idx); ok {
			o.cells[i] = v
			return
		}
		o = ex.materialize(st, id)
	}
	o.arr = mkStore(o.arr, mkBin(OpAdd, o.base, idx), v)
}

func (ex *Exec) checkWrite(st *State, o *Object) {
	for _, f := range st.frecs {
		if f.ids[o.id] {
			site, _ := ex.repoSite(st)
			f.dirty = append(f.dirty, site)
		}
	}
	if !ex.cfg.Monitor || !st.initDone {
		return
	}
	if o.shared {
		ex.recordViolation(st, "c18.shared-write", nil, "write to package-level state: "+o.site)
	}
	if o.isInput {
		ex.recordViolation(st, "c18.input-write", nil, "write into the input buffer")
	}
}

func (ex *Exec) load(st *State, p *Ptr) Value {
	if p.obj == 0 {
		ex.recordViolation(st, "panic:nil", nil, "nil pointer dereference")
		ex.endPath("violation:panic:nil")
	}
	o := st.obj(p.obj)
	switch o.kind {
	case objCell:
		return navigate(o.val, p.path)
	case objBytes:
		if p.idx == nil {
			// whole array value
			if o.cells == nil {
				panic(engineErr("load of whole symbolic byte array"))
			}
			av := &ArrayVal{elems: make([]Value, len(o.cells))}
			for i, c := range o.cells {
				av.elems[i] = c
			}
			return av
		}
		return ex.byteAt(st, o, p.idx)
	case objArr:
		if p.idx == nil {
			return &ArrayVal{elems: append([]Value(nil), o.elems...)}
		}
		i, ok := concreteInt(p.idx)
		if !ok {
			panic(engineErr("load: symbolic index into non-byte array"))
		}
		return navigate(o.elems[i], p.path)
	}
	panic(engineErr("load from object kind %d", o.kind))
}

func (ex *Exec) store(st *State, p *Ptr, v Value) {
	if p.obj == 0 {
		ex.recordViolation(st, "panic:nil", nil, "nil pointer dereference (store)")
		ex.endPath("violation:panic:nil")
	}
	o := st.obj(p.obj)
	switch o.kind {
	case objCell:
		o = st.wobj(p.obj)
		ex.checkWrite(st, o)
		o.val = updatePath(o.val, p.path, v)
	case objBytes:
		if p.idx == nil {
			av := v.(*ArrayVal)
			o = st.wobj(p.obj)
			ex.checkWrite(st, o)
			o.cells = make([]*Term, len(av.elems))
			for i, e := range av.elems {
				o.cells[i] = e.(*Term)
			}
			o.arr = nil
			return
		}
		ex.setByte(st, p.obj, p.idx, v.(*Term))
	case objArr:
		o = st.wobj(p.obj)
		ex.checkWrite(st, o)
		if p.idx == nil {
			o.elems = append([]Value(nil), v.(*ArrayVal).elems...)
			return
		}
		i, ok := concreteInt(p.idx)
		if !ok {
			panic(engineErr("store: symbolic index into non-byte array"))
		}
		o.elems[i] = updatePath(o.elems[i], p.path, v)
	default:
		panic(engineErr("store to object kind %d", o.kind))
	}
}

// toInt64 widens an integer term to 64 bits according to the signedness of its Go type.
func toInt64(t *Term, typ types.Type) *Term {
	if t.sort.W == 64 {
		return t
	}
	if isSigned(typ) {
		return mkSext(64, t)
	}
	return mkZext(64, t)
}

// ---------------------------------------------------------------------------
// the interpreter

func (ex *Exec) pushFrame(st *State, fn *ssa.Function, args []Value, bindings []Value, call *ssa.Call) {
	if fn.Blocks == nil {
		panic(engineErr("call of function without body: %s", fn))
	}
	if len(st.frames) > 200 {
		panic(engineErr("call depth exceeded in %s", fn))
	}
	fr := &Frame{fn: fn, env: make(map[ssa.Value]Value, 32), block: fn.Blocks[0], call: call, visits: map[int]int{}}
	if len(args) != len(fn.Params) {
		panic(engineErr("arity mismatch calling %s: %d vs %d", fn, len(args), len(fn.Params)))
	}
	for i, p := range fn.Params {
		fr.env[p] = args[i]
	}
	for i, fv := range fn.FreeVars {
		fr.env[fv] = bindings[i]
	}
	st.frames = append(st.frames, fr)
	if fn.Pkg != nil && isRepoPkg(fn.Pkg.Pkg) {
		ex.funcs[fn.String()] = true
	}
}

func (ex *Exec) jump(st *State, fr *Frame, to *ssa.BasicBlock) {
	from := fr.block
	// loop handling: count arrivals at blocks through back edges
	if to.Index <= from.Index && to.Dominates(from) {
		key := fmt.Sprintf("%s#%d", fr.fn.String(), to.Index)
		if ex.cuts[key] && ex.cutApplies(st, key) {
			ex.cutAt(st, fr, from, to, key)
		}
		fr.visits[to.Index]++
		for _, ua := range ex.cfg.UnwindAssume {
			uan := ex.cfg.UnwindAssumeN
			if uan == 0 {
				uan = 4
			}
			if ua == fr.fn.String() && fr.visits[to.Index] >= uan {
				ex.res.UnwindAssumed++
				ex.endPath("unwind-assumed")
			}
		}
		if fr.visits[to.Index] > ex.cfg.Unwind {
			site := sitePos(ex.prog, firstPos(to))
			msg := fmt.Sprintf("unwind:%s at %s (bound %d)", fr.fn.String(), site, ex.cfg.Unwind)
			found := false
			for _, u := range ex.res.Unwinds {
				if u == msg {
					found = true
				}
			}
			if !found {
				ex.res.Unwinds = append(ex.res.Unwinds, msg)
				// keep a model of a path that reaches the bound
				ex.recordViolation(st, "unwind", nil, msg)
			}
			ex.endPath("unwind")
		}
	}
	if len(ex.cuts) > 0 && !(to.Index <= from.Index && to.Dominates(from)) {
		if ex.cuts[fmt.Sprintf("%s#%d", fr.fn.String(), to.Index)] {
			// first arrival at a cut loop head: remember the cursor of every reader object
			snap := map[int]*Term{}
			for id, o := range st.heap {
				if rd, ok := o.ext.(*readerExt); ok {
					snap[id] = rd.pos
				}
			}
			if fr.cutSeen == nil {
				fr.cutSeen = map[int]map[int]*Term{}
			}
			fr.cutSeen[to.Index] = snap
		}
	}
	fr.prev = from
	fr.block = to
	fr.ip = 0
	// evaluate phis simultaneously
	var vals []Value
	var phis []*ssa.Phi
	for _, in := range to.Instrs {
		phi, ok := in.(*ssa.Phi)
		if !ok {
			break
		}
		for i, p := range to.Preds {
			if p == from {
				vals = append(vals, ex.get(st, fr, phi.Edges[i]))
				break
			}
		}
		phis = append(phis, phi)
	}
	for i, phi := range phis {
		fr.env[phi] = vals[i]
	}
	fr.ip = len(phis)
}

func firstPos(b *ssa.BasicBlock) token.Pos {
	for _, in := range b.Instrs {
		if in.Pos().IsValid() {
			return in.Pos()
		}
	}
	return token.NoPos
}

// cutApplies: a cut restricted to "within f" only applies while f is on the call stack.
func (ex *Exec) cutApplies(st *State, key string) bool {
	w, ok := ex.cutWithin[key]
	if !ok {
		return true
	}
	for _, f := range st.frames {
		if f.fn.String() == w {
			return true
		}
	}
	return false
}

// cutAt implements the inductive step for an input-consuming loop: at the back edge the path ends
// after checking that some loop-carried measure strictly decreased.
func (ex *Exec) cutAt(st *State, fr *Frame, from, to *ssa.BasicBlock, key string) {
	var decs []*Term
	var descr []string
	for _, in := range to.Instrs {
		phi, ok := in.(*ssa.Phi)
		if !ok {
			break
		}
		var oldv, newv Value
		for i, p := range to.Preds {
			if p == from {
				newv = ex.get(st, fr, phi.Edges[i])
			}
		}
		oldv = fr.env[phi]
		switch o := oldv.(type) {
		case *SliceVal:
			n := newv.(*SliceVal)
			decs = append(decs, mkCmp(OpUlt, n.len, o.len))
			descr = append(descr, "len("+phi.Comment+")")
		case *Term:
			if o.sort.K == KBV {
				n := newv.(*Term)
				decs = append(decs, mkCmp(OpUlt, n, o))
				descr = append(descr, phi.Comment)
			}
		}
	}
	for id, old := range fr.cutSeen[to.Index] {
		if o, ok := st.heap[id]; ok {
			if rd, ok := o.ext.(*readerExt); ok {
				decs = append(decs, mkAnd(mkCmp(OpUlt, old, rd.pos), mkCmp(OpUle, rd.pos, rd.src.len)))
				descr = append(descr, "remaining octets of the reader")
			}
		}
	}
	ex.res.PathsCut++
	if len(decs) == 0 {
		ex.recordViolation(st, "c04.variant", nil, "no loop-carried measure at "+key)
		ex.endPath("cut")
	}
	ex.oblige(st, mkOr(decs...), "c04.variant", "no measure among {"+strings.Join(descr, ", ")+"} strictly decreases at "+key)
	ex.endPath("cut")
}

func (ex *Exec) returnFrom(st *State, vals []Value) {
	fr := st.top()
	st.frames = st.frames[:len(st.frames)-1]
	if len(st.frames) == 0 {
		ex.endPath("done")
	}
	caller := st.top()
	if fr.retry {
		return
	}
	if fr.call != nil {
		var rv Value
		switch len(vals) {
		case 0:
			rv = nil
		case 1:
			rv = vals[0]
		default:
			rv = &TupleVal{vals: vals}
		}
		caller.env[fr.call] = rv
		caller.ip++
	}
}

func (ex *Exec) step(st *State) {
	fr := st.top()
	in := fr.block.Instrs[fr.ip]
	if len(st.forced) == 0 {
		st.made = st.made[:0]
	}
	st.steps++
	ex.res.Steps++
	if ex.res.Steps&1023 == 0 && !ex.deadline.IsZero() {
		now := time.Now()
		if now.After(ex.deadline) {
			panic(jobTimeout{})
		}
		// a job that has already found a violation does not keep exploring for minutes
		if len(ex.res.Violations) > 0 && now.After(ex.started.Add(20*time.Second)) {
			panic(jobTimeout{})
		}
	}
	if ex.cfg.MaxSteps > 0 && st.steps > ex.cfg.MaxSteps {
		panic(engineErr("step bound exceeded on one path (%d)", ex.cfg.MaxSteps))
	}
	switch x := in.(type) {
	case *ssa.DebugRef:
	case *ssa.Alloc:
		o := ex.allocFor(st, x.Type().(*types.Pointer).Elem())
		o.site, _ = ex.instrSite(st, x)
		fr.env[x] = &Ptr{obj: o.id}
	case *ssa.BinOp:
		fr.env[x] = ex.binop(st, x.Op, ex.get(st, fr, x.X), ex.get(st, fr, x.Y), x.X.Type(), x.Y.Type())
	case *ssa.UnOp:
		fr.env[x] = ex.unop(st, x, ex.get(st, fr, x.X))
	case *ssa.ChangeType:
		fr.env[x] = ex.get(st, fr, x.X)
	case *ssa.ChangeInterface:
		fr.env[x] = ex.get(st, fr, x.X)
	case *ssa.Convert:
		fr.env[x] = ex.convert(st, ex.get(st, fr, x.X), x.X.Type(), x.Type())
	case *ssa.MakeInterface:
		fr.env[x] = &IfaceVal{typ: x.X.Type(), val: ex.get(st, fr, x.X)}
	case *ssa.MakeClosure:
		fv := &FuncVal{fn: x.Fn.(*ssa.Function)}
		for _, b := range x.Bindings {
			fv.bindings = append(fv.bindings, ex.get(st, fr, b))
		}
		fr.env[x] = fv
	case *ssa.Extract:
		fr.env[x] = ex.get(st, fr, x.Tuple).(*TupleVal).vals[x.Index]
	case *ssa.Field:
		fr.env[x] = ex.get(st, fr, x.X).(*StructVal).fields[x.Field]
	case *ssa.FieldAddr:
		p := ex.get(st, fr, x.X).(*Ptr)
		if p.obj == 0 {
			ex.recordViolation(st, "panic:nil", nil, "nil pointer dereference (field address)")
			ex.endPath("violation:panic:nil")
		}
		np := &Ptr{obj: p.obj, idx: p.idx, path: append(append([]int(nil), p.path...), x.Field)}
		fr.env[x] = np
	case *ssa.IndexAddr:
		fr.env[x] = ex.indexAddr(st, fr, x)
	case *ssa.Index:
		fr.env[x] = ex.index(st, fr, x)
	case *ssa.Lookup:
		fr.env[x] = ex.lookup(st, fr, x)
	case *ssa.Slice:
		fr.env[x] = ex.slice(st, fr, x)
	case *ssa.MakeSlice:
		fr.env[x] = ex.makeSlice(st, x.Type().Underlying().(*types.Slice).Elem(),
			toInt64(ex.get(st, fr, x.Len).(*Term), x.Len.Type()), toInt64(ex.get(st, fr, x.Cap).(*Term), x.Cap.Type()))
	case *ssa.MakeMap:
		o := st.newObject(objMap, x.Type())
		fr.env[x] = &MapVal{obj: o.id}
	case *ssa.MakeChan:
		// a channel is a counter of queued elements on an object (single-threaded executor: a send on a
		// full channel or a receive from an empty one can never proceed and is reported as a deadlock);
		// only the number of elements is tracked, so the element type must carry no information
		o := st.newObject(objCell, nil)
		o.val = &StructVal{}
		n := ex.intOfTerm(st, ex.get(st, fr, x.Size).(*Term), "channel capacity")
		o.ext = &chanExt{cap: n}
		site, _ := ex.repoSite(st)
		o.site = "channel made at " + site
		fr.env[x] = &Ptr{obj: o.id}
	case *ssa.Send:
		p := ex.get(st, fr, x.Chan).(*Ptr)
		ce := ex.chanOf(st, p)
		if ce.n >= ce.cap {
			ex.recordViolation(st, "deadlock", nil, "send on a full channel that nothing on this path can drain")
			ex.endPath("violation:deadlock")
		}
		w := st.wobj(p.obj)
		w.ext = &chanExt{cap: ce.cap, n: ce.n + 1}
		ex.checkWrite(st, w)
	case *ssa.MapUpdate:
		ex.mapUpdate(st, ex.get(st, fr, x.Map).(*MapVal), ex.get(st, fr, x.Key), ex.get(st, fr, x.Value))
	case *ssa.Range:
		fr.env[x] = ex.rangeStart(st, ex.get(st, fr, x.X))
	case *ssa.Next:
		it := ex.get(st, fr, x.Iter).(*MapIter)
		nit := *it
		if it.pos >= len(it.keys) {
			fr.env[x] = &TupleVal{vals: []Value{mkBool(false), nil, nil}}
		} else {
			fr.env[x] = &TupleVal{vals: []Value{mkBool(true), it.keys[it.pos], it.vals[it.pos]}}
			nit.pos++
			// the iterator value is rebound under the same SSA name (iterators are used linearly)
			fr.env[x.Iter] = &nit
		}
	case *ssa.TypeAssert:
		fr.env[x] = ex.typeAssert(st, x, ex.get(st, fr, x.X).(*IfaceVal))
	case *ssa.Store:
		ex.store(st, ex.get(st, fr, x.Addr).(*Ptr), ex.get(st, fr, x.Val))
	case *ssa.Phi:
		panic(engineErr("phi reached in straight-line execution"))
	case *ssa.Jump:
		ex.jump(st, fr, fr.block.Succs[0])
		return
	case *ssa.If:
		c := ex.get(st, fr, x.Cond).(*Term)
		if ex.branch(st, c) {
			ex.jump(st, fr, fr.block.Succs[0])
		} else {
			ex.jump(st, fr, fr.block.Succs[1])
		}
		return
	case *ssa.Return:
		var vals []Value
		for _, r := range x.Results {
			vals = append(vals, ex.get(st, fr, r))
		}
		ex.returnFrom(st, vals)
		return
	case *ssa.Panic:
		v := ex.get(st, fr, x.X)
		d := "explicit panic"
		if iv, ok := v.(*IfaceVal); ok {
			if s, ok := iv.val.(*StrVal); ok {
				if cs, ok := s.concrete(); ok {
					d = "panic(" + cs + ")"
				}
			}
		}
		ex.recordViolation(st, "panic:explicit", nil, d)
		ex.endPath("violation:panic:explicit")
	case *ssa.Defer:
		var args []Value
		for _, a := range x.Call.Args {
			args = append(args, ex.get(st, fr, a))
		}
		if x.Call.IsInvoke() {
			panic(engineErr("defer of interface method"))
		}
		fr.defers = append(fr.defers, deferred{fn: ex.get(st, fr, x.Call.Value), args: args})
	case *ssa.RunDefers:
		if n := len(fr.defers); n > 0 {
			d := fr.defers[n-1]
			fr.defers = fr.defers[:n-1]
			fv := d.fn.(*FuncVal)
			if fv.fn == nil {
				panic(engineErr("deferred builtin"))
			}
			key := fnKey(fv.fn)
			if f, ok := intrinsics[key]; ok {
				f(ex, st, fr, nil, d.args)
				return // RunDefers is executed again for the next deferred call
			}
			if m, ok := redirects[key]; ok {
				ex.pushFrame(st, ex.verifrtFunc(m), d.args, nil, nil)
				return
			}
			ex.pushFrame(st, fv.fn, d.args, fv.bindings, nil)
			return
		}
	case *ssa.Call:
		if ex.call(st, fr, x) {
			return // frame pushed; ip advanced on return
		}
	default:
		panic(engineErr("unsupported SSA instruction %T: %s", in, in))
	}
	fr.ip++
}

// ---------------------------------------------------------------------------
// operators

type chanExt struct{ cap, n int }

func (c *chanExt) cloneExt() Ext { return c }

func (ex *Exec) chanOf(st *State, p *Ptr) *chanExt {
	if p.obj == 0 {
		ex.recordViolation(st, "deadlock", nil, "operation on a nil channel")
		ex.endPath("violation:deadlock")
	}
	ce, ok := st.obj(p.obj).ext.(*chanExt)
	if !ok {
		panic(engineErr("channel operation on an unmodelled object"))
	}
	return ce
}

func (ex *Exec) intOfTerm(st *State, t *Term, what string) int {
	if n, ok := concreteInt(t); ok {
		return n
	}
	return ex.concretize(st, t, what, 4096)
}

func (ex *Exec) unop(st *State, x *ssa.UnOp, v Value) Value {
	switch x.Op {
	case token.MUL:
		return ex.load(st, v.(*Ptr))
	case token.NOT:
		return mkNot(v.(*Term))
	case token.SUB:
		return mkUn(OpNeg, v.(*Term))
	case token.XOR:
		return mkUn(OpBNot, v.(*Term))
	case token.ARROW:
		p := v.(*Ptr)
		ce := ex.chanOf(st, p)
		if ce.n == 0 {
			ex.recordViolation(st, "deadlock", nil, "receive from an empty channel that nothing on this path can fill")
			ex.endPath("violation:deadlock")
		}
		w := st.wobj(p.obj)
		w.ext = &chanExt{cap: ce.cap, n: ce.n - 1}
		ex.checkWrite(st, w)
		el := x.X.Type().Underlying().(*types.Chan).Elem()
		if st, ok := el.Underlying().(*types.Struct); !ok || st.NumFields() != 0 {
			panic(engineErr("receive from a channel whose elements carry data (%s)", el))
		}
		if x.CommaOk {
			return &TupleVal{vals: []Value{zeroValue(el), mkBool(true)}}
		}
		return zeroValue(el)
	}
	panic(engineErr("unsupported unary operator %s", x.Op))
}

func (ex *Exec) valuesEqual(st *State, a, b Value) *Term {
	switch x := a.(type) {
	case nil:
		if b == nil {
			return mkBool(true)
		}
		return ex.valuesEqual(st, b, a)
	case *Term:
		return mkEq(x, b.(*Term))
	case *Ptr:
		y, ok := b.(*Ptr)
		if !ok {
			return mkBool(false)
		}
		if x.obj != y.obj {
			return mkBool(false)
		}
		if len(x.path) != len(y.path) {
			return mkBool(false)
		}
		for i := range x.path {
			if x.path[i] != y.path[i] {
				return mkBool(false)
			}
		}
		if (x.idx == nil) != (y.idx == nil) {
			return mkBool(false)
		}
		if x.idx != nil {
			return mkEq(x.idx, y.idx)
		}
		return mkBool(true)
	case *StrVal:
		y := b.(*StrVal)
		if len(x.cells) != len(y.cells) {
			return mkBool(false)
		}
		cs := make([]*Term, len(x.cells))
		for i := range x.cells {
			cs[i] = mkEq(x.cells[i], y.cells[i])
		}
		return mkAnd(cs...)
	case *IfaceVal:
		y, ok := b.(*IfaceVal)
		if !ok {
			return mkBool(false)
		}
		if x.typ == nil || y.typ == nil {
			return mkBool(x.typ == nil && y.typ == nil)
		}
		if !types.Identical(x.typ, y.typ) {
			return mkBool(false)
		}
		return ex.valuesEqual(st, x.val, y.val)
	case *Opaque:
		y, ok := b.(*Opaque)
		return mkBool(ok && x == y)
	case *ExtRef:
		y, ok := b.(*ExtRef)
		return mkBool(ok && x.obj == y.obj)
	case *SliceVal:
		// only comparison with nil is legal
		y := b.(*SliceVal)
		if x.obj == 0 && y.obj == 0 {
			return mkBool(true)
		}
		if x.obj == 0 || y.obj == 0 {
			return mkBool(false)
		}
		panic(engineErr("slice comparison"))
	case *MapVal:
		y := b.(*MapVal)
		return mkBool(x.obj == y.obj)
	case *FuncVal:
		y := b.(*FuncVal)
		return mkBool(x.fn == y.fn && x.builtin == y.builtin)
	case *StructVal:
		y := b.(*StructVal)
		cs := make([]*Term, len(x.fields))
		for i := range x.fields {
			cs[i] = ex.valuesEqual(st, x.fields[i], y.fields[i])
		}
		return mkAnd(cs...)
	case *ArrayVal:
		y := b.(*ArrayVal)
		cs := make([]*Term, len(x.elems))
		for i := range x.elems {
			cs[i] = ex.valuesEqual(st, x.elems[i], y.elems[i])
		}
		return mkAnd(cs...)
	}
	panic(engineErr("valuesEqual: unsupported %T", a))
}

func (ex *Exec) binop(st *State, op token.Token, a, b Value, ta, tb types.Type) Value {
	if op == token.EQL {
		return ex.valuesEqual(st, a, b)
	}
	if op == token.NEQ {
		return mkNot(ex.valuesEqual(st, a, b))
	}
	if sa, ok := a.(*StrVal); ok {
		sb := b.(*StrVal)
		switch op {
		case token.ADD:
			return &StrVal{cells: append(append([]*Term(nil), sa.cells...), sb.cells...)}
		case token.LSS, token.GTR, token.LEQ, token.GEQ:
			x, ok1 := sa.concrete()
			y, ok2 := sb.concrete()
			if ok1 && ok2 {
				switch op {
				case token.LSS:
					return mkBool(x < y)
				case token.GTR:
					return mkBool(x > y)
				case token.LEQ:
					return mkBool(x <= y)
				default:
					return mkBool(x >= y)
				}
			}
		}
		panic(engineErr("unsupported string operator %s", op))
	}
	x, ok := a.(*Term)
	if !ok {
		panic(engineErr("binop %s on %T", op, a))
	}
	y := b.(*Term)
	if x.sort.K == KBool {
		switch op {
		case token.AND:
			return mkAnd(x, y)
		case token.OR:
			return mkOr(x, y)
		case token.XOR:
			return mkNot(mkEq(x, y))
		}
		panic(engineErr("bool binop %s", op))
	}
	signed := isSigned(ta)
	w := x.sort.W
	switch op {
	case token.SHL, token.SHR:
		// shift count: arbitrary unsigned/signed width; saturate to w
		var cnt *Term
		if y.sort.W == w {
			cnt = y
		} else if y.sort.W < w {
			cnt = mkZext(w, y)
		} else {
			big := mkCmp(OpUle, mkBV(y.sort.W, uint64(w)), y)
			cnt = mkIte(big, mkBV(w, uint64(w)), mkExtract(w-1, 0, y))
		}
		if op == token.SHL {
			return mkBin(OpShl, x, cnt)
		}
		if signed {
			return mkBin(OpAshr, x, cnt)
		}
		return mkBin(OpLshr, x, cnt)
	}
	if x.sort != y.sort {
		panic(engineErr("binop %s width mismatch %d vs %d", op, x.sort.W, y.sort.W))
	}
	switch op {
	case token.ADD:
		return mkBin(OpAdd, x, y)
	case token.SUB:
		return mkBin(OpSub, x, y)
	case token.MUL:
		return mkBin(OpMul, x, y)
	case token.QUO, token.REM:
		ex.oblige(st, mkNot(mkEq(y, mkBV(w, 0))), "panic:divzero", "integer divide by zero")
		if signed {
			if op == token.QUO {
				return mkBin(OpSDiv, x, y)
			}
			return mkBin(OpSRem, x, y)
		}
		if op == token.QUO {
			return mkBin(OpUDiv, x, y)
		}
		return mkBin(OpURem, x, y)
	case token.AND:
		return mkBin(OpBAnd, x, y)
	case token.OR:
		return mkBin(OpBOr, x, y)
	case token.XOR:
		return mkBin(OpBXor, x, y)
	case token.AND_NOT:
		return mkBin(OpBAnd, x, mkUn(OpBNot, y))
	case token.LSS:
		if signed {
			return mkCmp(OpSlt, x, y)
		}
		return mkCmp(OpUlt, x, y)
	case token.LEQ:
		if signed {
			return mkCmp(OpSle, x, y)
		}
		return mkCmp(OpUle, x, y)
	case token.GTR:
		if signed {
			return mkCmp(OpSlt, y, x)
		}
		return mkCmp(OpUlt, y, x)
	case token.GEQ:
		if signed {
			return mkCmp(OpSle, y, x)
		}
		return mkCmp(OpUle, y, x)
	}
	panic(engineErr("unsupported binary operator %s", op))
}

func (ex *Exec) convert(st *State, v Value, from, to types.Type) Value {
	fu, tu := from.Underlying(), to.Underlying()
	if t, ok := v.(*Term); ok {
		if tb, ok := tu.(*types.Basic); ok {
			if w, _ := intWidth(tb); w > 0 && t.sort.K == KBV {
				if t.sort.W >= w {
					return mkExtract(w-1, 0, t)
				}
				if isSigned(from) {
					return mkSext(w, t)
				}
				return mkZext(w, t)
			}
			if tb.Info()&types.IsString != 0 {
				// string(rune): only for constant ASCII
				if c, ok := t.ConstU(); ok && c < 128 {
					return strConst(string(rune(c)))
				}
			}
			if tb.Info()&types.IsFloat != 0 {
				return &Opaque{desc: "float"}
			}
		}
		panic(engineErr("convert %s -> %s", from, to))
	}
	switch x := v.(type) {
	case *StrVal:
		if ts, ok := tu.(*types.Slice); ok && isByteElem(ts.Elem()) {
			o := st.newObject(objBytes, ts.Elem())
			o.cells = append(make([]*Term, 0, len(x.cells)), x.cells...)
			if o.cells == nil {
				o.cells = []*Term{}
			}
			n := c64(len(x.cells))
			return &SliceVal{obj: o.id, off: c64(0), len: n, cap: n, elem: ts.Elem()}
		}
		if tb, ok := tu.(*types.Basic); ok && tb.Info()&types.IsString != 0 {
			return x
		}
	case *SliceVal:
		if tb, ok := tu.(*types.Basic); ok && tb.Info()&types.IsString != 0 {
			n := ex.concretize(st, x.len, "string([]byte) length", 4096)
			sv := &StrVal{cells: make([]*Term, n)}
			if n > 0 {
				o := st.obj(x.obj)
				for i := 0; i < n; i++ {
					sv.cells[i] = ex.byteAt(st, o, mkBin(OpAdd, x.off, c64(i)))
				}
			}
			return sv
		}
		if _, ok := tu.(*types.Slice); ok {
			return x
		}
	case *Ptr:
		if _, ok := tu.(*types.Pointer); ok {
			return x
		}
		if tb, ok := tu.(*types.Basic); ok && tb.Kind() == types.UnsafePointer {
			return x
		}
	case *Opaque:
		return x
	}
	_ = fu
	panic(engineErr("unsupported conversion %s -> %s (%T)", from, to, v))
}

// ---------------------------------------------------------------------------
// indexing and slicing

func (ex *Exec) sliceParts(st *State, v Value) (obj int, off, ln, cp *Term, elem types.Type, isStr bool) {
	switch x := v.(type) {
	case *SliceVal:
		return x.obj, x.off, x.len, x.cap, x.elem, false
	}
	panic(engineErr("sliceParts of %T", v))
}

func (ex *Exec) indexAddr(st *State, fr *Frame, x *ssa.IndexAddr) Value {
	base := ex.get(st, fr, x.X)
	idx := toInt64(ex.get(st, fr, x.Index).(*Term), x.Index.Type())
	switch b := base.(type) {
	case *SliceVal:
		ex.oblige(st, mkCmp(OpUlt, idx, b.len), "panic:index", "index out of range")
		return &Ptr{obj: b.obj, idx: mkBin(OpAdd, b.off, idx)}
	case *Ptr:
		if b.obj == 0 {
			ex.recordViolation(st, "panic:nil", nil, "nil array pointer")
			ex.endPath("violation:panic:nil")
		}
		o := st.obj(b.obj)
		n := x.X.Type().Underlying().(*types.Pointer).Elem().Underlying().(*types.Array).Len()
		ex.oblige(st, mkCmp(OpUlt, idx, c64(int(n))), "panic:index", "index out of range")
		if (o.kind == objArr || o.kind == objBytes) && b.idx == nil && len(b.path) == 0 {
			return &Ptr{obj: b.obj, idx: idx}
		}
		i, ok := concreteInt(idx)
		if !ok {
			panic(engineErr("symbolic index into nested array"))
		}
		return &Ptr{obj: b.obj, idx: b.idx, path: append(append([]int(nil), b.path...), i)}
	}
	panic(engineErr("indexAddr on %T", base))
}

func (ex *Exec) index(st *State, fr *Frame, x *ssa.Index) Value {
	base := ex.get(st, fr, x.X)
	idx := toInt64(ex.get(st, fr, x.Index).(*Term), x.Index.Type())
	switch b := base.(type) {
	case *ArrayVal:
		ex.oblige(st, mkCmp(OpUlt, idx, c64(len(b.elems))), "panic:index", "index out of range")
		i, ok := concreteInt(idx)
		if !ok {
			panic(engineErr("symbolic index into array value"))
		}
		return b.elems[i]
	case *StrVal:
		return ex.strIndex(st, b, idx)
	}
	panic(engineErr("index on %T", base))
}

func (ex *Exec) strIndex(st *State, s *StrVal, idx *Term) *Term {
	ex.oblige(st, mkCmp(OpUlt, idx, c64(len(s.cells))), "panic:index", "string index out of range")
	if i, ok := concreteInt(idx); ok {
		return s.cells[i]
	}
	// ite chain
	r := s.cells[len(s.cells)-1]
	for i := len(s.cells) - 2; i >= 0; i-- {
		r = mkIte(mkEq(idx, c64(i)), s.cells[i], r)
	}
	return r
}

func (ex *Exec) slice(st *State, fr *Frame, x *ssa.Slice) Value {
	base := ex.get(st, fr, x.X)
	var lo, hi, mx *Term
	if x.Low != nil {
		lo = toInt64(ex.get(st, fr, x.Low).(*Term), x.Low.Type())
	}
	if x.High != nil {
		hi = toInt64(ex.get(st, fr, x.High).(*Term), x.High.Type())
	}
	if x.Max != nil {
		mx = toInt64(ex.get(st, fr, x.Max).(*Term), x.Max.Type())
	}
	switch b := base.(type) {
	case *StrVal:
		n := len(b.cells)
		l, h := 0, n
		if lo != nil {
			ex.oblige(st, mkCmp(OpUle, lo, c64(n)), "panic:slice", "string slice bounds out of range")
			l = ex.concretize(st, lo, "string slice low", 4096)
		}
		if hi != nil {
			ex.oblige(st, mkAnd(mkCmp(OpUle, hi, c64(n)), mkCmp(OpUle, c64(l), hi)), "panic:slice", "string slice bounds out of range")
			h = ex.concretize(st, hi, "string slice high", 4096)
		}
		return &StrVal{cells: b.cells[l:h]}
	case *SliceVal:
		return ex.sliceOf(st, b.obj, b.off, b.len, b.cap, b.elem, lo, hi, mx)
	case *Ptr:
		if b.obj == 0 {
			ex.recordViolation(st, "panic:nil", nil, "slice of nil array pointer")
			ex.endPath("violation:panic:nil")
		}
		o := st.obj(b.obj)
		if b.idx != nil || len(b.path) != 0 || (o.kind != objArr && o.kind != objBytes) {
			panic(engineErr("slice of nested array"))
		}
		arr := x.X.Type().Underlying().(*types.Pointer).Elem().Underlying().(*types.Array)
		n := c64(int(arr.Len()))
		return ex.sliceOf(st, b.obj, c64(0), n, n, arr.Elem(), lo, hi, mx)
	}
	panic(engineErr("slice of %T", base))
}

func (ex *Exec) sliceOf(st *State, obj int, off, ln, cp *Term, elem types.Type, lo, hi, mx *Term) Value {
	if lo == nil {
		lo = c64(0)
	}
	if hi == nil {
		hi = ln
	}
	newcap := cp
	var safe *Term
	if mx != nil {
		safe = mkAnd(mkCmp(OpUle, mx, cp), mkCmp(OpUle, hi, mx), mkCmp(OpUle, lo, hi))
		newcap = mx
	} else {
		safe = mkAnd(mkCmp(OpUle, hi, cp), mkCmp(OpUle, lo, hi))
	}
	ex.oblige(st, safe, "panic:slice", "slice bounds out of range")
	if ex.cfg.Strict && obj != 0 && st.obj(obj).isInput {
		ex.oblige(st, mkCmp(OpUle, hi, ln), "c04.overread", "slice of the input extended past its length (reads spare capacity)")
	}
	if obj == 0 {
		return &SliceVal{off: c64(0), len: c64(0), cap: c64(0), elem: elem}
	}
	return &SliceVal{obj: obj, off: mkBin(OpAdd, off, lo), len: mkBin(OpSub, hi, lo), cap: mkBin(OpSub, newcap, lo), elem: elem}
}

func (ex *Exec) makeSlice(st *State, elem types.Type, ln, cp *Term) Value {
	ex.oblige(st, mkAnd(mkCmp(OpSle, c64(0), ln), mkCmp(OpSle, ln, cp), mkCmp(OpSle, cp, c64(1<<30))), "panic:make", "makeslice: len out of range")
	if isByteElem(elem) {
		o := st.newObject(objBytes, elem)
		o.site, _ = ex.repoSite(st)
		if c, ok := concreteInt(cp); ok {
			o.cells = make([]*Term, c)
			z := mkBV(8, 0)
			for i := range o.cells {
				o.cells[i] = z
			}
		} else {
			o.arr = mkConstArr(mkBV(8, 0))
			o.base = c64(0)
			o.size = cp
		}
		return &SliceVal{obj: o.id, off: c64(0), len: ln, cap: cp, elem: elem}
	}
	c := ex.concretize(st, cp, "make cap of non-byte slice", 1024)
	o := st.newObject(objArr, elem)
	o.elems = make([]Value, c)
	for i := range o.elems {
		o.elems[i] = zeroValue(elem)
	}
	return &SliceVal{obj: o.id, off: c64(0), len: ln, cap: cp, elem: elem}
}

// ---------------------------------------------------------------------------
// maps

func (ex *Exec) keyEq(st *State, a, b Value) *Term {
	return ex.valuesEqual(st, a, b)
}

// findEntry returns the index of the entry equal to key (forking on symbolic equality), or -1.
func (ex *Exec) findEntry(st *State, o *Object, key Value) int {
	var conds []*Term
	var idxs []int
	var none []*Term
	for i, e := range o.entries {
		c := ex.keyEq(st, e.key, key)
		if c.IsTrue() {
			return i
		}
		if c.IsFalse() {
			continue
		}
		conds = append(conds, c)
		idxs = append(idxs, i)
		none = append(none, mkNot(c))
	}
	if len(conds) == 0 {
		return -1
	}
	conds = append(conds, mkAnd(none...))
	idxs = append(idxs, -1)
	return idxs[ex.chooseForced(st, conds, true)]
}

func (ex *Exec) mapUpdate(st *State, m *MapVal, key, val Value) {
	if m.obj == 0 {
		ex.recordViolation(st, "panic:nilmap", nil, "assignment to entry in nil map")
		ex.endPath("violation:panic:nilmap")
	}
	i := ex.findEntry(st, st.obj(m.obj), key)
	o := st.wobj(m.obj)
	ex.checkWrite(st, o)
	if i >= 0 {
		o.entries[i].val = val
	} else {
		o.entries = append(o.entries, mapEntry{key, val})
	}
}

func (ex *Exec) lookup(st *State, fr *Frame, x *ssa.Lookup) Value {
	base := ex.get(st, fr, x.X)
	key := ex.get(st, fr, x.Index)
	if s, ok := base.(*StrVal); ok {
		return ex.strIndex(st, s, toInt64(key.(*Term), x.Index.Type()))
	}
	m := base.(*MapVal)
	vt := x.X.Type().Underlying().(*types.Map).Elem()
	found := -1
	var o *Object
	if m.obj != 0 {
		o = st.obj(m.obj)
		found = ex.findEntry(st, o, key)
	}
	var v Value
	if found >= 0 {
		v = o.entries[found].val
	} else {
		v = zeroValue(vt)
	}
	if x.CommaOk {
		return &TupleVal{vals: []Value{v, mkBool(found >= 0)}}
	}
	return v
}

func permutations(n int) [][]int {
	if n == 0 {
		return [][]int{{}}
	}
	var out [][]int
	for _, p := range permutations(n - 1) {
		for i := 0; i <= len(p); i++ {
			q := append(append(append([]int(nil), p[:i]...), n-1), p[i:]...)
			out = append(out, q)
		}
	}
	return out
}

func (ex *Exec) rangeStart(st *State, v Value) Value {
	switch x := v.(type) {
	case *MapVal:
		it := &MapIter{}
		if x.obj == 0 {
			return it
		}
		o := st.obj(x.obj)
		n := len(o.entries)
		var orders [][]int
		if n <= 1 || !ex.cfg.MapOrders {
			orders = [][]int{make([]int, n)}
			for i := range orders[0] {
				orders[0][i] = i
			}
		} else if n <= 3 {
			orders = permutations(n)
			ex.res.MapOrders = "all permutations for maps of <= 3 entries; insertion, reverse and rotate-by-one orders for larger maps"
		} else {
			a, b, c := make([]int, n), make([]int, n), make([]int, n)
			for i := 0; i < n; i++ {
				a[i], b[i], c[i] = i, n-1-i, (i+1)%n
			}
			orders = [][]int{a, b, c}
			ex.res.MapOrders = "all permutations for maps of <= 3 entries; insertion, reverse and rotate-by-one orders for larger maps"
		}
		k := 0
		if len(orders) > 1 {
			conds := make([]*Term, len(orders))
			for i := range conds {
				conds[i] = mkBool(true)
			}
			k = ex.chooseForced(st, conds, false)
		}
		for _, i := range orders[k] {
			it.keys = append(it.keys, o.entries[i].key)
			it.vals = append(it.vals, o.entries[i].val)
		}
		return it
	case *StrVal:
		it := &MapIter{isStr: true}
		for i, c := range x.cells {
			if v, ok := c.ConstU(); ok && v >= 0x80 {
				panic(engineErr("range over non-ASCII string"))
			}
			it.keys = append(it.keys, c64(i))
			it.vals = append(it.vals, mkZext(32, c))
		}
		return it
	}
	panic(engineErr("range over %T", v))
}

// ---------------------------------------------------------------------------
// interfaces

func (ex *Exec) implements(dyn types.Type, iface *types.Interface) bool {
	if dyn == ex.opaqueT || dyn == ex.extT {
		return true
	}
	return types.Implements(dyn, iface)
}

func (ex *Exec) typeAssert(st *State, x *ssa.TypeAssert, iv *IfaceVal) Value {
	ok := false
	var res Value
	if iv.typ != nil {
		if it, isI := x.AssertedType.Underlying().(*types.Interface); isI {
			ok = ex.implements(iv.typ, it)
			res = iv
		} else {
			ok = types.Identical(iv.typ, x.AssertedType)
			res = iv.val
		}
	}
	if x.CommaOk {
		if !ok {
			res = zeroValue(x.AssertedType)
		}
		return &TupleVal{vals: []Value{res, mkBool(ok)}}
	}
	if !ok {
		ex.recordViolation(st, "panic:typeassert", nil, fmt.Sprintf("interface conversion: %v is not %s", iv.typ, x.AssertedType))
		ex.endPath("violation:panic:typeassert")
	}
	return res
}
