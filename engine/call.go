package main

import (
	"go/types"
	"strings"

	"golang.org/x/tools/go/ssa"
)

type intrinsicFn func(ex *Exec, st *State, fr *Frame, call *ssa.Call, args []Value) Value

var intrinsics = map[string]intrinsicFn{}

// redirect: calls to these functions are replaced by a Go-source model living in verifrt.
var redirects = map[string]string{
	"sort.Slice":        "SortSliceModel",
	"(*sync.Pool).Get": "PoolGetModel",
	// searches whose standard implementation bottoms out in assembly
	"bytes.Index":                         "BytesIndexModel",
	"bytes.IndexByte":                     "BytesIndexByteModel",
	"bytes.Contains":                      "BytesContainsModel",
	"bytes.Count":                         "BytesCountModel",
	"internal/bytealg.IndexByte":          "BytesIndexByteModel",
	"internal/bytealg.Index":              "BytesIndexModel",
	"internal/bytealg.Count":              "BytesCountByteModel",
}

func (ex *Exec) call(st *State, fr *Frame, x *ssa.Call) bool {
	cc := x.Common()
	var args []Value
	if cc.IsInvoke() {
		recv := ex.get(st, fr, cc.Value).(*IfaceVal)
		if recv.typ == nil {
			ex.recordViolation(st, "panic:nil", nil, "method call on nil interface ("+cc.Method.Name()+")")
			ex.endPath("violation:panic:nil")
		}
		for _, a := range cc.Args {
			args = append(args, ex.get(st, fr, a))
		}
		if ref, ok := recv.val.(*ExtRef); ok {
			fr.env[x] = ex.extMethod(st, fr, x, ref, cc.Method.Name(), args)
			return false
		}
		if recv.typ == ex.opaqueT {
			fr.env[x] = ex.opaqueMethod(st, recv, cc.Method, args)
			return false
		}
		fn := ex.prog.LookupMethod(recv.typ, cc.Method.Pkg(), cc.Method.Name())
		if fn == nil {
			panic(engineErr("no method %s on %s", cc.Method.Name(), recv.typ))
		}
		return ex.callFunction(st, fr, x, fn, append([]Value{recv.val}, args...), nil)
	}
	for _, a := range cc.Args {
		args = append(args, ex.get(st, fr, a))
	}
	switch v := cc.Value.(type) {
	case *ssa.Builtin:
		fr.env[x] = ex.builtin(st, fr, x, v, args)
		return false
	case *ssa.Function:
		return ex.callFunction(st, fr, x, v, args, nil)
	}
	fv, ok := ex.get(st, fr, cc.Value).(*FuncVal)
	if !ok || (fv.fn == nil && fv.builtin == nil) {
		ex.recordViolation(st, "panic:nil", nil, "call of nil function value")
		ex.endPath("violation:panic:nil")
	}
	if fv.builtin != nil {
		fr.env[x] = ex.builtin(st, fr, x, fv.builtin, args)
		return false
	}
	return ex.callFunction(st, fr, x, fv.fn, args, fv.bindings)
}

func fnKey(fn *ssa.Function) string {
	if o := fn.Origin(); o != nil {
		return o.String()
	}
	return fn.String()
}

// formatters: stubs of functions that format their variadic arguments.  The formatting itself is not
// modelled, but String() / Error() methods the module defines on those arguments are run first (fmt calls
// them for %s / %v), so that what they do - a write to shared state, say - is part of the path.
var formatters = map[string]bool{
	"github.com/pkg/errors.Errorf": true, "github.com/pkg/errors.Wrapf": true, "fmt.Errorf": true, "fmt.Sprintf": true,
	"fmt.Sprint": true, "fmt.Sprintln": true, "fmt.Printf": true, "fmt.Println": true,
}

func (ex *Exec) touchStringers(st *State, fr *Frame, x *ssa.Call, args []Value) bool {
	if len(args) == 0 {
		return false
	}
	for _, f := range st.frames {
		if f.retry {
			return false // formatting inside a String method that is itself run for a formatter: not followed
		}
	}
	va, ok := args[len(args)-1].(*SliceVal)
	if !ok || va.obj == 0 {
		return false
	}
	o := st.obj(va.obj)
	if o.kind != objArr {
		return false
	}
	off, ok1 := concreteInt(va.off)
	n, ok2 := concreteInt(va.len)
	if !ok1 || !ok2 {
		return false
	}
	for i := fr.touch[x]; i < n; i++ {
		iv, ok := o.elems[off+i].(*IfaceVal)
		if !ok || iv.typ == nil || iv.typ == ex.opaqueT || iv.typ == ex.extT {
			continue
		}
		for _, name := range []string{"Error", "String"} {
			sel := ex.prog.MethodSets.MethodSet(iv.typ).Lookup(nil, name)
			if sel == nil {
				continue
			}
			m := ex.prog.MethodValue(sel)
			if m == nil || m.Blocks == nil || m.Pkg == nil || !isRepoPkg(m.Pkg.Pkg) || len(m.Params) != 1 {
				continue
			}
			if fr.touch == nil {
				fr.touch = map[ssa.Instruction]int{}
			}
			fr.touch[x] = i + 1
			ex.pushFrame(st, m, []Value{iv.val}, nil, x)
			st.top().retry = true
			return true
		}
	}
	delete(fr.touch, x)
	return false
}

func (ex *Exec) callFunction(st *State, fr *Frame, x *ssa.Call, fn *ssa.Function, args []Value, bindings []Value) bool {
	key := fnKey(fn)
	if x != nil && formatters[key] && ex.touchStringers(st, fr, x, args) {
		return true
	}
	if f, ok := intrinsics[key]; ok {
		fr.env[x] = f(ex, st, fr, x, args)
		return false
	}
	if m, ok := redirects[key]; ok {
		mf := ex.verifrtFunc(m)
		ex.pushFrame(st, mf, args, nil, x)
		return true
	}
	if fn.Pkg != nil && !isRepoPkg(fn.Pkg.Pkg) && (fn.Name() == "init" || strings.HasPrefix(fn.Name(), "init#")) && fn.Signature.Recv() == nil {
		fr.env[x] = nil
		return false
	}
	if fn.Blocks == nil {
		panic(engineErr("ENGINE-UNSUPPORTED: external function without model: %s", key))
	}
	if fn.Pkg != nil && !isRepoPkg(fn.Pkg.Pkg) {
		if !allowedExternal(fn) {
			panic(engineErr("ENGINE-UNSUPPORTED: library function outside the modelled boundary: %s", key))
		}
	}
	ex.pushFrame(st, fn, args, bindings, x)
	return true
}

// allowedExternal lists the plain-Go library code that is executed from its real SSA body.
func allowedExternal(fn *ssa.Function) bool {
	p := ""
	if fn.Pkg != nil {
		p = fn.Pkg.Pkg.Path()
	} else if fn.Origin() != nil && fn.Origin().Pkg != nil {
		p = fn.Origin().Pkg.Pkg.Path()
	}
	switch p {
	case moduleName + "/internal/verifrt":
		return true
	case "encoding/binary", "bytes", "errors", "net", "internal/bytealg", "math/bits", "slices", "cmp", "io":
		return true
	}
	return false
}

func (ex *Exec) verifrtFunc(name string) *ssa.Function {
	for _, p := range ex.prog.AllPackages() {
		if p.Pkg.Path() == moduleName+"/internal/verifrt" {
			if f := p.Func(name); f != nil {
				return f
			}
		}
	}
	panic(engineErr("verifrt.%s not loaded", name))
}

func (ex *Exec) opaqueMethod(st *State, recv *IfaceVal, m *types.Func, args []Value) Value {
	switch m.Name() {
	case "Error", "String":
		return strConst("<opaque:" + recv.val.(*Opaque).desc + ">")
	case "Read":
		if recv.val.(*Opaque).desc == "crypto/rand.Reader" {
			return ex.randRead(st, args[0].(*SliceVal))
		}
	}
	panic(engineErr("method %s on opaque value %s", m.Name(), recv.val.(*Opaque).desc))
}

// ---------------------------------------------------------------------------
// builtins

func (ex *Exec) strToSlice(st *State, s *StrVal) *SliceVal {
	o := st.newObject(objBytes, types.Typ[types.Uint8])
	o.cells = append([]*Term{}, s.cells...)
	n := c64(len(s.cells))
	return &SliceVal{obj: o.id, off: c64(0), len: n, cap: n, elem: types.Typ[types.Uint8]}
}

func (ex *Exec) builtin(st *State, fr *Frame, x *ssa.Call, b *ssa.Builtin, args []Value) Value {
	switch b.Name() {
	case "len":
		switch v := args[0].(type) {
		case *SliceVal:
			return v.len
		case *StrVal:
			return c64(len(v.cells))
		case *MapVal:
			if v.obj == 0 {
				return c64(0)
			}
			return c64(len(st.obj(v.obj).entries))
		case *Ptr: // pointer to array
			return c64(int(x.Call.Args[0].Type().Underlying().(*types.Pointer).Elem().Underlying().(*types.Array).Len()))
		case *ArrayVal:
			return c64(len(v.elems))
		}
	case "cap":
		switch v := args[0].(type) {
		case *SliceVal:
			return v.cap
		}
	case "append":
		dst := args[0].(*SliceVal)
		var src *SliceVal
		switch s := args[1].(type) {
		case *SliceVal:
			src = s
		case *StrVal:
			src = ex.strToSlice(st, s)
		}
		if isByteElem(dst.elem) {
			return ex.appendBytes(st, dst, src)
		}
		return ex.appendVals(st, dst, src)
	case "copy":
		dst := args[0].(*SliceVal)
		var src *SliceVal
		switch s := args[1].(type) {
		case *SliceVal:
			src = s
		case *StrVal:
			src = ex.strToSlice(st, s)
		}
		return ex.copyBuiltin(st, dst, src)
	case "delete":
		m := args[0].(*MapVal)
		if m.obj == 0 {
			return nil
		}
		i := ex.findEntry(st, st.obj(m.obj), args[1])
		if i >= 0 {
			o := st.wobj(m.obj)
			ex.checkWrite(st, o)
			o.entries = append(append([]mapEntry(nil), o.entries[:i]...), o.entries[i+1:]...)
		}
		return nil
	case "min", "max":
		a, bb := args[0].(*Term), args[1].(*Term)
		signed := isSigned(x.Call.Args[0].Type())
		var lt *Term
		if signed {
			lt = mkCmp(OpSlt, a, bb)
		} else {
			lt = mkCmp(OpUlt, a, bb)
		}
		if b.Name() == "min" {
			return mkIte(lt, a, bb)
		}
		return mkIte(lt, bb, a)
	case "print", "println":
		return nil
	case "ssa:wrapnilchk":
		p := args[0].(*Ptr)
		if p.obj == 0 {
			ex.recordViolation(st, "panic:nil", nil, "value method called through nil pointer")
			ex.endPath("violation:panic:nil")
		}
		return p
	}
	panic(engineErr("unsupported builtin %s(%T)", b.Name(), args[0]))
}

// newBytesFrom makes a fresh byte object holding a copy of src[0:len].
func (ex *Exec) newBytesFrom(st *State, src *SliceVal) *SliceVal {
	elem := src.elem
	if n, ok := concreteInt(src.len); ok {
		o := st.newObject(objBytes, elem)
		o.cells = make([]*Term, n)
		if n > 0 {
			so := st.obj(src.obj)
			for i := 0; i < n; i++ {
				o.cells[i] = ex.byteAt(st, so, mkBin(OpAdd, src.off, c64(i)))
			}
		}
		return &SliceVal{obj: o.id, off: c64(0), len: src.len, cap: src.len, elem: elem}
	}
	// symbolic length: a window sharing the source's array term (snapshot semantics)
	so := st.obj(src.obj)
	if so.cells != nil {
		so = ex.materialize(st, src.obj)
	}
	o := st.newObject(objBytes, elem)
	o.arr = so.arr
	o.base = mkBin(OpAdd, so.base, src.off)
	o.size = src.len
	return &SliceVal{obj: o.id, off: c64(0), len: src.len, cap: src.len, elem: elem}
}

func (ex *Exec) appendBytes(st *State, dst, src *SliceVal) Value {
	if src == nil || src.obj == 0 {
		return dst
	}
	if z, ok := concreteInt(src.len); ok && z == 0 {
		return dst
	}
	dl, dok := concreteInt(dst.len)
	dc, cok := concreteInt(dst.cap)
	sl, sok := concreteInt(src.len)
	if dst.obj == 0 || (dok && dl == 0 && !(cok && sok && dc >= sl)) {
		if dst.obj != 0 && !cok {
			panic(engineErr("append to empty slice with symbolic capacity"))
		}
		r := ex.newBytesFrom(st, src)
		r.elem = dst.elem
		return r
	}
	if !dok {
		dl = ex.concretize(st, dst.len, "append: destination length", 4096)
	}
	if !sok {
		sl = ex.concretize(st, src.len, "append: source length", 4096)
	}
	if !cok {
		panic(engineErr("append to slice with symbolic capacity"))
	}
	so := st.obj(src.obj)
	vals := make([]*Term, sl)
	for i := 0; i < sl; i++ {
		vals[i] = ex.byteAt(st, so, mkBin(OpAdd, src.off, c64(i)))
	}
	if dc >= dl+sl {
		for i := 0; i < sl; i++ {
			ex.setByte(st, dst.obj, mkBin(OpAdd, dst.off, c64(dl+i)), vals[i])
		}
		return &SliceVal{obj: dst.obj, off: dst.off, len: c64(dl + sl), cap: dst.cap, elem: dst.elem}
	}
	do := st.obj(dst.obj)
	o := st.newObject(objBytes, dst.elem)
	o.cells = make([]*Term, dl+sl)
	for i := 0; i < dl; i++ {
		o.cells[i] = ex.byteAt(st, do, mkBin(OpAdd, dst.off, c64(i)))
	}
	copy(o.cells[dl:], vals)
	n := c64(dl + sl)
	return &SliceVal{obj: o.id, off: c64(0), len: n, cap: n, elem: dst.elem}
}

func (ex *Exec) appendVals(st *State, dst, src *SliceVal) Value {
	if src == nil || src.obj == 0 {
		return dst
	}
	sl, ok := concreteInt(src.len)
	if !ok {
		panic(engineErr("append: symbolic length of non-byte slice"))
	}
	if sl == 0 {
		return dst
	}
	so := st.obj(src.obj)
	soff, _ := concreteInt(src.off)
	vals := append([]Value(nil), so.elems[soff:soff+sl]...)
	dl, _ := concreteInt(dst.len)
	dc, _ := concreteInt(dst.cap)
	doff, _ := concreteInt(dst.off)
	if dst.obj != 0 && dc >= dl+sl {
		o := st.wobj(dst.obj)
		ex.checkWrite(st, o)
		copy(o.elems[doff+dl:], vals)
		return &SliceVal{obj: dst.obj, off: dst.off, len: c64(dl + sl), cap: dst.cap, elem: dst.elem}
	}
	o := st.newObject(objArr, dst.elem)
	o.elems = make([]Value, dl+sl)
	if dl > 0 {
		copy(o.elems, st.obj(dst.obj).elems[doff:doff+dl])
	}
	copy(o.elems[dl:], vals)
	n := c64(dl + sl)
	return &SliceVal{obj: o.id, off: c64(0), len: n, cap: n, elem: dst.elem}
}

// copyBytesN copies n octets from the start of src to the start of dst.
func (ex *Exec) copyBytesN(st *State, dst, src *SliceVal, n *Term) {
	if k, ok := concreteInt(n); ok {
		if k == 0 {
			return
		}
		so := st.obj(src.obj)
		vals := make([]*Term, k)
		for i := 0; i < k; i++ {
			vals[i] = ex.byteAt(st, so, mkBin(OpAdd, src.off, c64(i)))
		}
		for i := 0; i < k; i++ {
			ex.setByte(st, dst.obj, mkBin(OpAdd, dst.off, c64(i)), vals[i])
		}
		return
	}
	do := st.obj(dst.obj)
	if z, ok := concreteInt(dst.off); ok && z == 0 && do.cells == nil && do.size == n {
		// full overwrite of a symbolic-size buffer: rebind it as a window on the source
		so := st.obj(src.obj)
		if so.cells != nil {
			so = ex.materialize(st, src.obj)
		}
		w := st.wobj(dst.obj)
		ex.checkWrite(st, w)
		w.arr = so.arr
		w.base = mkBin(OpAdd, so.base, src.off)
		return
	}
	k := ex.concretize(st, n, "copy length", 4096)
	ex.copyBytesN(st, dst, src, c64(k))
}

func (ex *Exec) copyBuiltin(st *State, dst, src *SliceVal) Value {
	if dst.obj == 0 || src == nil || src.obj == 0 {
		return c64(0)
	}
	n := mkIte(mkCmp(OpUlt, dst.len, src.len), dst.len, src.len)
	if isByteElem(dst.elem) {
		ex.copyBytesN(st, dst, src, n)
		return n
	}
	k, ok := concreteInt(n)
	if !ok {
		panic(engineErr("copy: symbolic length of non-byte slice"))
	}
	so := st.obj(src.obj)
	soff, _ := concreteInt(src.off)
	doff, _ := concreteInt(dst.off)
	vals := append([]Value(nil), so.elems[soff:soff+k]...)
	o := st.wobj(dst.obj)
	ex.checkWrite(st, o)
	copy(o.elems[doff:], vals)
	return n
}

// readBytes returns the octets of a slice with concrete length (concretising it if needed).
func (ex *Exec) readBytes(st *State, s *SliceVal, what string) []*Term {
	if s == nil || s.obj == 0 {
		return nil
	}
	n := ex.concretize(st, s.len, what, 8192)
	if n == 0 {
		return nil
	}
	o := st.obj(s.obj)
	out := make([]*Term, n)
	for i := 0; i < n; i++ {
		out[i] = ex.byteAt(st, o, mkBin(OpAdd, s.off, c64(i)))
	}
	return out
}

func (ex *Exec) newBytes(st *State, cells []*Term) *SliceVal {
	o := st.newObject(objBytes, types.Typ[types.Uint8])
	o.cells = append([]*Term{}, cells...)
	n := c64(len(cells))
	return &SliceVal{obj: o.id, off: c64(0), len: n, cap: n, elem: types.Typ[types.Uint8]}
}
