package main

import (
	"crypto/aes"
	"crypto/hmac"
	"crypto/md5"
	"crypto/sha1"
	"crypto/sha256"
	"fmt"
	"go/types"
	"hash"
	"math/big"
	"net"
	"strings"

	"golang.org/x/tools/go/ssa"
)

const vrt = moduleName + "/internal/verifrt."

func boolTerm(v Value) *Term { return v.(*Term) }

func (ex *Exec) intArg(st *State, v Value, what string) int {
	t := v.(*Term)
	if c, ok := concreteInt(t); ok {
		return c
	}
	return ex.concretize(st, t, what, 4096)
}

func (ex *Exec) strArg(v Value) string {
	s, ok := v.(*StrVal).concrete()
	if !ok {
		panic(engineErr("symbolic string where a constant is required"))
	}
	return s
}

func (ex *Exec) nextVec() uint64 {
	if ex.vecPos >= len(ex.cfg.Vector) {
		panic(engineErr("concrete mode: vector exhausted"))
	}
	v := ex.cfg.Vector[ex.vecPos]
	ex.vecPos++
	return v
}

func (ex *Exec) drawScalar(st *State, kind string, w int) *Term {
	if ex.cfg.Concrete {
		v := ex.nextVec()
		return mkBV(w, v)
	}
	t := freshVar(kind, BV(w))
	st.draws = append(st.draws, Draw{Kind: kind, ts: []*Term{t}})
	return t
}

func (ex *Exec) drawBytes(st *State, kind string, n int) []*Term {
	ts := make([]*Term, n)
	for i := range ts {
		if ex.cfg.Concrete {
			ts[i] = mkBV(8, ex.nextVec())
		} else {
			ts[i] = freshVar(kind, BV(8))
		}
	}
	if !ex.cfg.Concrete {
		st.draws = append(st.draws, Draw{Kind: kind, N: n, ts: ts})
	}
	return ts
}

func errorIface(ex *Exec, desc string) *IfaceVal {
	return &IfaceVal{typ: ex.opaqueT, val: &Opaque{id: -1, desc: desc}}
}

func (ex *Exec) newOpaqueError(desc string) *IfaceVal {
	// every opaque error is a distinct non-nil value
	ex.tokens["err#"+fmt.Sprint(len(ex.tokens))] = nil
	return &IfaceVal{typ: ex.opaqueT, val: &Opaque{id: len(ex.tokens), desc: desc}}
}

func (ex *Exec) stdGlobal(st *State, pkg, name string) Value {
	p := ex.prog.ImportedPackage(pkg)
	if p == nil {
		panic(engineErr("package %s not loaded", pkg))
	}
	g := p.Members[name].(*ssa.Global)
	return ex.load(st, &Ptr{obj: ex.globalObj(st, g)})
}

func init() {
	// ------------------------------------------------------------------ verifrt API
	intrinsics[vrt+"Param"] = func(ex *Exec, st *State, fr *Frame, c *ssa.Call, a []Value) Value {
		i := ex.intArg(st, a[0], "Param index")
		if i >= len(ex.cfg.Params) {
			panic(engineErr("Param(%d) but job has %d parameters", i, len(ex.cfg.Params)))
		}
		return c64(ex.cfg.Params[i])
	}
	intrinsics[vrt+"SParam"] = func(ex *Exec, st *State, fr *Frame, c *ssa.Call, a []Value) Value {
		i := ex.intArg(st, a[0], "SParam index")
		if i >= len(ex.cfg.SParams) {
			panic(engineErr("SParam(%d) but job has %d string parameters", i, len(ex.cfg.SParams)))
		}
		return strConst(ex.cfg.SParams[i])
	}
	intrinsics[vrt+"ModExpBytes"] = func(ex *Exec, st *State, fr *Frame, c *ssa.Call, a []Value) Value {
		toBig := func(v Value, what string) *Term {
			bs := ex.readBytes(st, v.(*SliceVal), what)
			if len(bs) == 0 {
				return mkBV(bigW, 0)
			}
			return ex.bigFromBytes(bs)
		}
		b, e, m := toBig(a[0], "modexp base"), toBig(a[1], "modexp exponent"), toBig(a[2], "modexp modulus")
		n := ex.intArg(st, a[3], "modexp output length")
		r := ex.modexp(st, b, e, m)
		return ex.newBytes(st, splitBytes(mkExtract(8*n-1, 0, r), n))
	}
	intrinsics[vrt+"U8"] = func(ex *Exec, st *State, fr *Frame, c *ssa.Call, a []Value) Value {
		return ex.drawScalar(st, "u8", 8)
	}
	intrinsics[vrt+"U16"] = func(ex *Exec, st *State, fr *Frame, c *ssa.Call, a []Value) Value {
		return ex.drawScalar(st, "u16", 16)
	}
	intrinsics[vrt+"U32"] = func(ex *Exec, st *State, fr *Frame, c *ssa.Call, a []Value) Value {
		return ex.drawScalar(st, "u32", 32)
	}
	intrinsics[vrt+"U64"] = func(ex *Exec, st *State, fr *Frame, c *ssa.Call, a []Value) Value {
		return ex.drawScalar(st, "u64", 64)
	}
	intrinsics[vrt+"Bool"] = func(ex *Exec, st *State, fr *Frame, c *ssa.Call, a []Value) Value {
		t := ex.drawScalar(st, "bool", 8)
		return mkNot(mkEq(t, mkBV(8, 0)))
	}
	intrinsics[vrt+"Bytes"] = func(ex *Exec, st *State, fr *Frame, c *ssa.Call, a []Value) Value {
		n := ex.intArg(st, a[0], "Bytes length")
		return ex.newBytes(st, ex.drawBytes(st, "bytes", n))
	}
	intrinsics[vrt+"Input"] = func(ex *Exec, st *State, fr *Frame, c *ssa.Call, a []Value) Value {
		n := ex.intArg(st, a[0], "Input length")
		const maxSlack = 8
		o := st.newObject(objBytes, types.Typ[types.Uint8])
		o.isInput = true
		if ex.cfg.Concrete {
			o.cells = make([]*Term, n)
			for i := range o.cells {
				o.cells[i] = mkBV(8, ex.nextVec())
			}
			return &SliceVal{obj: o.id, off: c64(0), len: c64(n), cap: c64(n), elem: types.Typ[types.Uint8]}
		}
		arr := freshVar("in", ArrSort)
		slack := freshVar("slack", BV(64))
		st.addPC(mkCmp(OpUle, slack, c64(maxSlack)))
		o.arr, o.base = arr, c64(0)
		o.size = mkBin(OpAdd, c64(n), slack)
		ts := []*Term{slack}
		for i := 0; i < n+maxSlack; i++ {
			ts = append(ts, mkSelect(arr, c64(i)))
		}
		st.draws = append(st.draws, Draw{Kind: "input", N: n, ts: ts})
		return &SliceVal{obj: o.id, off: c64(0), len: c64(n), cap: o.size, elem: types.Typ[types.Uint8]}
	}
	intrinsics[vrt+"IntIn"] = func(ex *Exec, st *State, fr *Frame, c *ssa.Call, a []Value) Value {
		lo := ex.intArg(st, a[0], "IntIn lo")
		hi := ex.intArg(st, a[1], "IntIn hi")
		if ex.cfg.Concrete {
			return c64(int(ex.nextVec()))
		}
		if hi < lo {
			ex.endPath("infeasible")
		}
		conds := make([]*Term, hi-lo+1)
		for i := range conds {
			conds[i] = mkBool(true)
		}
		k := ex.choose(st, conds, false)
		st.draws = append(st.draws, Draw{Kind: "int", cnst: []uint64{uint64(lo + k)}})
		return c64(lo + k)
	}
	intrinsics[vrt+"IntOf"] = func(ex *Exec, st *State, fr *Frame, c *ssa.Call, a []Value) Value {
		s := a[0].(*SliceVal)
		n, _ := concreteInt(s.len)
		off, _ := concreteInt(s.off)
		if ex.cfg.Concrete {
			return c64(int(ex.nextVec()))
		}
		if n == 0 {
			ex.endPath("infeasible")
		}
		conds := make([]*Term, n)
		for i := range conds {
			conds[i] = mkBool(true)
		}
		k := ex.choose(st, conds, false)
		v := st.obj(s.obj).elems[off+k].(*Term)
		cv, ok := concreteInt(v)
		if !ok {
			panic(engineErr("IntOf with symbolic alternative"))
		}
		st.draws = append(st.draws, Draw{Kind: "int", cnst: []uint64{uint64(cv)}})
		return v
	}
	intrinsics[vrt+"Concrete"] = func(ex *Exec, st *State, fr *Frame, c *ssa.Call, a []Value) Value {
		return c64(ex.intArg(st, a[0], "Concrete"))
	}
	intrinsics[vrt+"Assume"] = func(ex *Exec, st *State, fr *Frame, c *ssa.Call, a []Value) Value {
		t := boolTerm(a[0])
		if t.IsTrue() {
			return nil
		}
		if t.IsFalse() {
			ex.res.PathsInfeas++
			ex.endPath("assume-false")
		}
		r, _ := ex.check(st, t, nil)
		if r == Unsat {
			ex.res.PathsInfeas++
			ex.endPath("assume-false")
		}
		st.addPC(t)
		return nil
	}
	intrinsics[vrt+"Assert"] = func(ex *Exec, st *State, fr *Frame, c *ssa.Call, a []Value) Value {
		label := ex.strArg(a[0])
		ex.res.Asserts[label]++
		ex.witness(st, label)
		ex.oblige(st, boolTerm(a[1]), label, "assertion "+label)
		return nil
	}
	intrinsics[vrt+"Cover"] = func(ex *Exec, st *State, fr *Frame, c *ssa.Call, a []Value) Value {
		label := ex.strArg(a[0])
		ex.res.Covers[label]++
		ex.witness(st, "cover:"+label)
		return nil
	}
	intrinsics[vrt+"Note"] = func(ex *Exec, st *State, fr *Frame, c *ssa.Call, a []Value) Value {
		st.notes = append(st.notes, ex.strArg(a[0]))
		return nil
	}
	intrinsics[vrt+"All"] = func(ex *Exec, st *State, fr *Frame, c *ssa.Call, a []Value) Value {
		return mkAnd(ex.boolSlice(st, a[0])...)
	}
	intrinsics[vrt+"Any"] = func(ex *Exec, st *State, fr *Frame, c *ssa.Call, a []Value) Value {
		return mkOr(ex.boolSlice(st, a[0])...)
	}
	intrinsics[vrt+"Implies"] = func(ex *Exec, st *State, fr *Frame, c *ssa.Call, a []Value) Value {
		return mkImplies(boolTerm(a[0]), boolTerm(a[1]))
	}
	intrinsics[vrt+"EqBytes"] = func(ex *Exec, st *State, fr *Frame, c *ssa.Call, a []Value) Value {
		return ex.eqBytes(st, a[0].(*SliceVal), a[1].(*SliceVal))
	}
	intrinsics["bytes.Equal"] = intrinsics[vrt+"EqBytes"]
	intrinsics["crypto/hmac.Equal"] = intrinsics[vrt+"EqBytes"]
	intrinsics["crypto/subtle.ConstantTimeCompare"] = func(ex *Exec, st *State, fr *Frame, c *ssa.Call, a []Value) Value {
		return mkIte(ex.eqBytes(st, a[0].(*SliceVal), a[1].(*SliceVal)), c64(1), c64(0))
	}
	intrinsics[vrt+"Havoc"] = func(ex *Exec, st *State, fr *Frame, c *ssa.Call, a []Value) Value {
		s := a[0].(*SliceVal)
		if s.obj == 0 {
			ex.drawBytes(st, "bytes", 0)
			return nil
		}
		o := st.wobj(s.obj)
		if o.cells != nil {
			off, _ := concreteInt(s.off)
			ts := ex.drawBytes(st, "bytes", len(o.cells)-off)
			copy(o.cells[off:], ts)
			return nil
		}
		// window: replace the array by a fresh one (every octet, including spare capacity, changes)
		n, ok := concreteInt(s.len)
		if !ok {
			panic(engineErr("Havoc of symbolic-length window"))
		}
		arr := freshVar("havoc", ArrSort)
		ts := make([]*Term, n+8)
		for i := range ts {
			ts[i] = mkSelect(arr, mkBin(OpAdd, s.off, c64(i)))
		}
		st.draws = append(st.draws, Draw{Kind: "bytes", N: len(ts), ts: ts})
		o.arr = arr
		o.base = c64(0)
		return nil
	}
	intrinsics[vrt+"FaultAt"] = func(ex *Exec, st *State, fr *Frame, c *ssa.Call, a []Value) Value {
		k := ex.intArg(st, a[0], "FaultAt")
		if k <= 0 {
			st.faultAt = -1
		} else {
			st.faultAt = k
		}
		st.randCnt = 0
		return nil
	}
	intrinsics[vrt+"ModelPlaintext"] = func(ex *Exec, st *State, fr *Frame, c *ssa.Call, a []Value) Value {
		return &SliceVal{off: c64(0), len: c64(0), cap: c64(0), elem: types.Typ[types.Uint8]}
	}
	intrinsics[vrt+"FrameBegin"] = func(ex *Exec, st *State, fr *Frame, c *ssa.Call, a []Value) Value {
		ids := map[int]bool{}
		ex.reach(st, a[0], ids)
		st.frecs = append(st.frecs, &frameRec{ids: ids})
		return c64(len(st.frecs) - 1)
	}
	intrinsics[vrt+"FrameUnchanged"] = func(ex *Exec, st *State, fr *Frame, c *ssa.Call, a []Value) Value {
		i := ex.intArg(st, a[0], "frame token")
		f := st.frecs[i]
		if len(f.dirty) > 0 {
			st.notes = append(st.notes, "written at "+strings.Join(f.dirty, ", "))
		}
		return mkBool(len(f.dirty) == 0)
	}
	intrinsics[vrt+"Native"] = func(ex *Exec, st *State, fr *Frame, c *ssa.Call, a []Value) Value {
		return mkBool(false)
	}
	intrinsics[vrt+"RandLog"] = func(ex *Exec, st *State, fr *Frame, c *ssa.Call, a []Value) Value {
		// [][]byte of the octets delivered by every successful read so far
		bt := types.NewSlice(types.Typ[types.Uint8])
		o := st.newObject(objArr, bt)
		for _, d := range st.draws {
			if d.Kind == "rand" {
				o.elems = append(o.elems, ex.newBytes(st, d.ts))
			}
		}
		n := c64(len(o.elems))
		return &SliceVal{obj: o.id, off: c64(0), len: n, cap: n, elem: bt}
	}
	intrinsics[vrt+"RandIntLog"] = func(ex *Exec, st *State, fr *Frame, c *ssa.Call, a []Value) Value {
		bt := types.NewSlice(types.Typ[types.Uint8])
		o := st.newObject(objArr, bt)
		for _, d := range st.draws {
			if d.Kind == "randint" {
				o.elems = append(o.elems, ex.newBytes(st, splitBytes(d.ts[0], bigW/8)))
			}
		}
		n := c64(len(o.elems))
		return &SliceVal{obj: o.id, off: c64(0), len: n, cap: n, elem: bt}
	}
	intrinsics[vrt+"RandAllLog"] = func(ex *Exec, st *State, fr *Frame, c *ssa.Call, a []Value) Value {
		// every delivery of the random source so far, in order (rand.Int values as 256 octets)
		bt := types.NewSlice(types.Typ[types.Uint8])
		o := st.newObject(objArr, bt)
		for _, d := range st.draws {
			switch d.Kind {
			case "rand":
				o.elems = append(o.elems, ex.newBytes(st, d.ts))
			case "randint":
				all := splitBytes(d.ts[0], bigW/8)
				o.elems = append(o.elems, ex.newBytes(st, all[len(all)-256:]))
			}
		}
		n := c64(len(o.elems))
		return &SliceVal{obj: o.id, off: c64(0), len: n, cap: n, elem: bt}
	}
	intrinsics[vrt+"RandReads"] = func(ex *Exec, st *State, fr *Frame, c *ssa.Call, a []Value) Value {
		return c64(st.randCnt)
	}
	intrinsics[vrt+"HMAC"] = func(ex *Exec, st *State, fr *Frame, c *ssa.Call, a []Value) Value {
		kind := ex.strArg(a[0])
		key := ex.readBytes(st, a[1].(*SliceVal), "HMAC key length")
		data := ex.readBytes(st, a[2].(*SliceVal), "HMAC data length")
		return ex.newBytes(st, hmacUF(kind, key, data))
	}
	intrinsics[vrt+"AESEnc"] = func(ex *Exec, st *State, fr *Frame, c *ssa.Call, a []Value) Value {
		key := ex.readBytes(st, a[0].(*SliceVal), "AES key length")
		blk := ex.readBytes(st, a[1].(*SliceVal), "AES block length")
		return ex.newBytes(st, splitBytes(ex.aesUF(st, true, key, joinBytes(blk)), 16))
	}
	intrinsics[vrt+"AESDec"] = func(ex *Exec, st *State, fr *Frame, c *ssa.Call, a []Value) Value {
		key := ex.readBytes(st, a[0].(*SliceVal), "AES key length")
		blk := ex.readBytes(st, a[1].(*SliceVal), "AES block length")
		return ex.newBytes(st, splitBytes(ex.aesUF(st, false, key, joinBytes(blk)), 16))
	}
	intrinsics[vrt+"GuardCipher"] = func(ex *Exec, st *State, fr *Frame, c *ssa.Call, a []Value) Value {
		st.guards = append(st.guards, guard{label: ex.strArg(a[0]), cond: boolTerm(a[1])})
		return nil
	}
	intrinsics[vrt+"ClearGuards"] = func(ex *Exec, st *State, fr *Frame, c *ssa.Call, a []Value) Value {
		st.guards = nil
		return nil
	}
	intrinsics[vrt+"CipherCalls"] = func(ex *Exec, st *State, fr *Frame, c *ssa.Call, a []Value) Value {
		return c64(st.hits["cipher"])
	}
	intrinsics[vrt+"MacCalls"] = func(ex *Exec, st *State, fr *Frame, c *ssa.Call, a []Value) Value {
		return c64(st.hits["mac"])
	}
	intrinsics[vrt+"Output"] = func(ex *Exec, st *State, fr *Frame, c *ssa.Call, a []Value) Value {
		label := ex.strArg(a[0])
		bs := ex.readBytes(st, a[1].(*SliceVal), "Output")
		var sb strings.Builder
		for _, b := range bs {
			if v, ok := b.ConstU(); ok {
				fmt.Fprintf(&sb, "%02x", v)
			} else {
				sb.WriteString("??")
			}
		}
		ex.res.Outputs = append(ex.res.Outputs, label+" "+sb.String())
		st.outputs = append(st.outputs, outRec{label: label, ts: bs})
		return nil
	}
	intrinsics[vrt+"LenAny"] = func(ex *Exec, st *State, fr *Frame, c *ssa.Call, a []Value) Value {
		return a[0].(*IfaceVal).val.(*SliceVal).len
	}
	intrinsics[vrt+"SwapAny"] = func(ex *Exec, st *State, fr *Frame, c *ssa.Call, a []Value) Value {
		s := a[0].(*IfaceVal).val.(*SliceVal)
		i := ex.intArg(st, a[1], "swap i")
		j := ex.intArg(st, a[2], "swap j")
		off, _ := concreteInt(s.off)
		if isByteElem(s.elem) {
			o := st.obj(s.obj)
			x := ex.byteAt(st, o, c64(off+i))
			y := ex.byteAt(st, o, c64(off+j))
			ex.setByte(st, s.obj, c64(off+i), y)
			ex.setByte(st, s.obj, c64(off+j), x)
			return nil
		}
		o := st.wobj(s.obj)
		o.elems[off+i], o.elems[off+j] = o.elems[off+j], o.elems[off+i]
		return nil
	}

	// ------------------------------------------------------------------ formatting / errors
	opaqueErr := func(name string, wrapArg int) intrinsicFn {
		return func(ex *Exec, st *State, fr *Frame, c *ssa.Call, a []Value) Value {
			if wrapArg >= 0 {
				if iv := a[wrapArg].(*IfaceVal); iv.typ == nil {
					return &IfaceVal{}
				}
			}
			site := "deferred"
			if c != nil {
				site, _ = ex.instrSite(st, c)
			}
			return ex.newOpaqueError(name + "@" + site)
		}
	}
	intrinsics["github.com/pkg/errors.New"] = opaqueErr("errors.New", -1)
	intrinsics["github.com/pkg/errors.Errorf"] = opaqueErr("errors.Errorf", -1)
	intrinsics["github.com/pkg/errors.Wrap"] = opaqueErr("errors.Wrap", 0)
	intrinsics["github.com/pkg/errors.Wrapf"] = opaqueErr("errors.Wrapf", 0)
	intrinsics["github.com/pkg/errors.WithStack"] = opaqueErr("errors.WithStack", 0)
	intrinsics["github.com/pkg/errors.WithMessage"] = opaqueErr("errors.WithMessage", 0)
	intrinsics["fmt.Errorf"] = opaqueErr("fmt.Errorf", -1)
	opaqueStr := func(ex *Exec, st *State, fr *Frame, c *ssa.Call, a []Value) Value {
		return strConst("<formatted>")
	}
	intrinsics["fmt.Sprintf"] = func(ex *Exec, st *State, fr *Frame, c *ssa.Call, a []Value) Value {
		if cells, ok := ex.formatCells(st, a[0].(*StrVal), a[1]); ok {
			return &StrVal{cells: cells}
		}
		return strConst("<formatted>")
	}
	intrinsics["fmt.Appendf"] = func(ex *Exec, st *State, fr *Frame, c *ssa.Call, a []Value) Value {
		cells, ok := ex.formatCells(st, a[1].(*StrVal), a[2])
		if !ok {
			cells = strConst("<formatted>").cells
		}
		if len(cells) == 0 {
			return a[0]
		}
		return ex.appendBytes(st, a[0].(*SliceVal), ex.newBytes(st, cells))
	}
	intrinsics["fmt.Sprint"] = opaqueStr
	intrinsics["fmt.Sprintln"] = opaqueStr
	intrinsics["encoding/hex.EncodeToString"] = opaqueStr
	intrinsics["encoding/hex.Dump"] = opaqueStr
	intrinsics["strconv.FormatUint"] = opaqueStr
	intrinsics["strconv.Itoa"] = opaqueStr
	intrinsics["fmt.Printf"] = func(ex *Exec, st *State, fr *Frame, c *ssa.Call, a []Value) Value {
		return &TupleVal{vals: []Value{c64(0), &IfaceVal{}}}
	}
	intrinsics["fmt.Println"] = intrinsics["fmt.Printf"]
	intrinsics["strings.Repeat"] = func(ex *Exec, st *State, fr *Frame, c *ssa.Call, a []Value) Value {
		return strConst(strings.Repeat(ex.strArg(a[0]), ex.intArg(st, a[1], "Repeat count")))
	}
	intrinsics["net.ParseIP"] = func(ex *Exec, st *State, fr *Frame, c *ssa.Call, a []Value) Value {
		s, ok := a[0].(*StrVal).concrete()
		if !ok {
			panic(engineErr("net.ParseIP on symbolic string"))
		}
		ip := net.ParseIP(s)
		if ip == nil {
			return &SliceVal{off: c64(0), len: c64(0), cap: c64(0), elem: types.Typ[types.Uint8]}
		}
		cells := make([]*Term, len(ip))
		for i, b := range ip {
			cells[i] = mkBV(8, uint64(b))
		}
		return ex.newBytes(st, cells)
	}

	// ------------------------------------------------------------------ crypto: hash / hmac
	for _, k := range []string{"md5", "sha1", "sha256"} {
		k := k
		intrinsics["crypto/"+k+".New"] = func(ex *Exec, st *State, fr *Frame, c *ssa.Call, a []Value) Value {
			panic(engineErr("plain %s hash object used directly (only through hmac.New is modelled)", k))
		}
	}
	sumFn := func(kind string, n int) intrinsicFn {
		return func(ex *Exec, st *State, fr *Frame, c *ssa.Call, a []Value) Value {
			data := ex.readBytes(st, a[0].(*SliceVal), "hash input length")
			var out []*Term
			if db, ok := allConst(data); ok {
				switch kind {
				case "sha256":
					h := sha256.Sum256(db)
					out = constBytes(h[:])
				case "sha1":
					h := sha1.Sum(db)
					out = constBytes(h[:])
				default:
					h := md5.Sum(db)
					out = constBytes(h[:])
				}
			} else if len(data) == 0 {
				panic(engineErr("plain hash of empty symbolic input"))
			} else {
				out = splitBytes(mkUF(fmt.Sprintf("HASH_%s_m%d", kind, len(data)), BV(8*n), joinBytes(data)), n)
			}
			av := &ArrayVal{elems: make([]Value, n)}
			for i := range out {
				av.elems[i] = out[i]
			}
			return av
		}
	}
	intrinsics["crypto/sha256.Sum256"] = sumFn("sha256", 32)
	intrinsics["crypto/sha1.Sum"] = sumFn("sha1", 20)
	intrinsics["crypto/md5.Sum"] = sumFn("md5", 16)
	intrinsics["crypto/hmac.New"] = func(ex *Exec, st *State, fr *Frame, c *ssa.Call, a []Value) Value {
		fv := a[0].(*FuncVal)
		kind := ""
		if fv.fn != nil {
			switch fv.fn.String() {
			case "crypto/md5.New":
				kind = "md5"
			case "crypto/sha1.New":
				kind = "sha1"
			case "crypto/sha256.New":
				kind = "sha256"
			}
		}
		if kind == "" {
			panic(engineErr("hmac.New with unmodelled hash constructor %v", fv.fn))
		}
		key := ex.readBytes(st, a[1].(*SliceVal), "hmac key length")
		o := st.newObject(objExt, nil)
		o.ext = &hmacExt{kind: kind, key: key}
		return &IfaceVal{typ: ex.extT, val: &ExtRef{obj: o.id}}
	}

	// ------------------------------------------------------------------ crypto: AES / CBC
	intrinsics["crypto/aes.NewCipher"] = func(ex *Exec, st *State, fr *Frame, c *ssa.Call, a []Value) Value {
		key := ex.readBytes(st, a[0].(*SliceVal), "AES key length")
		switch len(key) {
		case 16, 24, 32:
		default:
			return &TupleVal{vals: []Value{&IfaceVal{}, ex.newOpaqueError("aes.KeySizeError")}}
		}
		o := st.newObject(objExt, nil)
		o.ext = &aesExt{key: key}
		return &TupleVal{vals: []Value{&IfaceVal{typ: ex.extT, val: &ExtRef{obj: o.id}}, &IfaceVal{}}}
	}
	newCBC := func(enc bool) intrinsicFn {
		return func(ex *Exec, st *State, fr *Frame, c *ssa.Call, a []Value) Value {
			blk := a[0].(*IfaceVal)
			if blk.typ == nil {
				ex.recordViolation(st, "panic:nil", nil, "NewCBC on nil cipher.Block")
				ex.endPath("violation:panic:nil")
			}
			ae := st.obj(blk.val.(*ExtRef).obj).ext.(*aesExt)
			ivs := a[1].(*SliceVal)
			ex.oblige(st, mkEq(ivs.len, c64(16)), "panic:cbc-iv", "cipher.NewCBC: IV length must equal block size")
			iv := ex.readBytes(st, ivs, "CBC IV length")
			o := st.newObject(objExt, nil)
			o.ext = &cbcExt{enc: enc, key: ae.key, iv: joinBytes(iv)}
			return &IfaceVal{typ: ex.extT, val: &ExtRef{obj: o.id}}
		}
	}
	intrinsics["crypto/cipher.NewCBCEncrypter"] = newCBC(true)
	intrinsics["crypto/cipher.NewCBCDecrypter"] = newCBC(false)

	// ------------------------------------------------------------------ randomness
	intrinsics["crypto/rand.Read"] = func(ex *Exec, st *State, fr *Frame, c *ssa.Call, a []Value) Value {
		return ex.randFill(st, a[0].(*SliceVal))
	}
	intrinsics["io.ReadFull"] = func(ex *Exec, st *State, fr *Frame, c *ssa.Call, a []Value) Value {
		r := a[0].(*IfaceVal)
		buf := a[1].(*SliceVal)
		if r.typ == ex.opaqueT {
			if op := r.val.(*Opaque); op.desc == "crypto/rand.Reader" {
				return ex.randFill(st, buf)
			}
		}
		if p, ok := r.val.(*Ptr); ok && p.obj != 0 {
			if rd, ok := st.obj(p.obj).ext.(*readerExt); ok {
				return ex.readerReadFull(st, p.obj, rd, buf)
			}
			if _, ok := st.obj(p.obj).ext.(*randBufExt); ok {
				ex.checkWrite(st, st.wobj(p.obj))
				return ex.randFill(st, buf)
			}
		}
		panic(engineErr("io.ReadFull on unmodelled reader %v", r.typ))
	}
	intrinsics["crypto/rand.Int"] = func(ex *Exec, st *State, fr *Frame, c *ssa.Call, a []Value) Value {
		max := ex.bigOf(st, a[1].(*Ptr))
		st.randCnt++
		if st.faultAt == st.randCnt {
			return &TupleVal{vals: []Value{&Ptr{}, ex.newOpaqueError("rand.Int: injected failure")}}
		}
		ex.oblige(st, mkCmp(OpUlt, mkBV(bigW, 0), max), "panic:randint", "rand.Int: argument to Int is <= 0")
		var r *Term
		if ex.cfg.Concrete {
			panic(engineErr("rand.Int in concrete mode"))
		}
		r = freshVar("randint", BV(bigW))
		st.draws = append(st.draws, Draw{Kind: "randint", ts: []*Term{r}})
		st.addPC(mkCmp(OpUlt, r, max))
		return &TupleVal{vals: []Value{ex.newBig(st, r), &IfaceVal{}}}
	}

	// ------------------------------------------------------------------ sync.Map
	// A map with interface keys kept on the object the method is called on; Store / LoadOrStore / Delete
	// are writes to that object (a package-level sync.Map is shared state for the write monitor, however
	// well synchronised it is).
	smap := func(st *State, p *Ptr) (*Object, *syncMapExt) {
		o := st.obj(p.obj)
		if me, ok := o.ext.(*syncMapExt); ok {
			return o, me
		}
		return o, &syncMapExt{}
	}
	find := func(ex *Exec, st *State, me *syncMapExt, key Value) int {
		for i, k := range me.keys {
			if ex.branch(st, ex.valuesEqual(st, k, key)) {
				return i
			}
		}
		return -1
	}
	intrinsics["(*sync.Map).Load"] = func(ex *Exec, st *State, fr *Frame, c *ssa.Call, a []Value) Value {
		_, me := smap(st, a[0].(*Ptr))
		if i := find(ex, st, me, a[1]); i >= 0 {
			return &TupleVal{vals: []Value{me.vals[i], mkBool(true)}}
		}
		return &TupleVal{vals: []Value{&IfaceVal{}, mkBool(false)}}
	}
	store := func(ex *Exec, st *State, p *Ptr, me *syncMapExt, i int, key, val Value) {
		n := &syncMapExt{keys: append([]Value(nil), me.keys...), vals: append([]Value(nil), me.vals...)}
		if i >= 0 {
			n.vals[i] = val
		} else {
			n.keys, n.vals = append(n.keys, key), append(n.vals, val)
		}
		w := st.wobj(p.obj)
		w.ext = n
		ex.checkWrite(st, w)
	}
	intrinsics["(*sync.Map).Store"] = func(ex *Exec, st *State, fr *Frame, c *ssa.Call, a []Value) Value {
		p := a[0].(*Ptr)
		_, me := smap(st, p)
		store(ex, st, p, me, find(ex, st, me, a[1]), a[1], a[2])
		return nil
	}
	intrinsics["(*sync.Map).LoadOrStore"] = func(ex *Exec, st *State, fr *Frame, c *ssa.Call, a []Value) Value {
		p := a[0].(*Ptr)
		_, me := smap(st, p)
		if i := find(ex, st, me, a[1]); i >= 0 {
			return &TupleVal{vals: []Value{me.vals[i], mkBool(true)}}
		}
		store(ex, st, p, me, -1, a[1], a[2])
		return &TupleVal{vals: []Value{a[2], mkBool(false)}}
	}
	intrinsics["(*sync.Map).Delete"] = func(ex *Exec, st *State, fr *Frame, c *ssa.Call, a []Value) Value {
		p := a[0].(*Ptr)
		_, me := smap(st, p)
		if i := find(ex, st, me, a[1]); i >= 0 {
			n := &syncMapExt{}
			for j := range me.keys {
				if j != i {
					n.keys, n.vals = append(n.keys, me.keys[j]), append(n.vals, me.vals[j])
				}
			}
			w := st.wobj(p.obj)
			w.ext = n
			ex.checkWrite(st, w)
		}
		return nil
	}

	// ------------------------------------------------------------------ math/rand, time
	// A *math/rand.Rand made with rand.New is an object with hidden mutable state that is not safe for
	// concurrent use: every method call is a write to it (the write monitor sees it when the object hangs
	// off a package-level variable).  Its output is an engine-only draw (not replayable, not data).
	intrinsics["time.Now"] = func(ex *Exec, st *State, fr *Frame, c *ssa.Call, a []Value) Value {
		return &StructVal{fields: []Value{c64(0), c64(0), &Ptr{}}}
	}
	intrinsics["(time.Time).UnixNano"] = func(ex *Exec, st *State, fr *Frame, c *ssa.Call, a []Value) Value { return c64(0) }
	intrinsics["(time.Time).Unix"] = intrinsics["(time.Time).UnixNano"]
	intrinsics["math/rand.NewSource"] = func(ex *Exec, st *State, fr *Frame, c *ssa.Call, a []Value) Value {
		return &IfaceVal{typ: ex.opaqueT, val: ex.token("math/rand.Source")}
	}
	intrinsics["math/rand.New"] = func(ex *Exec, st *State, fr *Frame, c *ssa.Call, a []Value) Value {
		o := st.newObject(objCell, nil)
		o.val = &StructVal{}
		o.ext = &mathRandExt{}
		site, _ := ex.repoSite(st)
		o.site = "math/rand generator created at " + site
		return &Ptr{obj: o.id}
	}
	mrand := func(width int) intrinsicFn {
		return func(ex *Exec, st *State, fr *Frame, c *ssa.Call, a []Value) Value {
			p := a[0].(*Ptr)
			if p.obj == 0 {
				ex.recordViolation(st, "panic:nil", nil, "nil *rand.Rand")
				ex.endPath("violation:panic:nil")
			}
			ex.checkWrite(st, st.wobj(p.obj))
			if width == 0 { // Read(p []byte) (int, error)
				buf := a[1].(*SliceVal)
				n := ex.concretize(st, buf.len, "math/rand read length", 4096)
				for i, t := range ex.drawBytes(st, "mrand", n) {
					ex.setByte(st, buf.obj, mkBin(OpAdd, buf.off, c64(i)), t)
				}
				return &TupleVal{vals: []Value{c64(n), &IfaceVal{}}}
			}
			v := freshVar("mrand", BV(width))
			if width == 64 {
				st.addPC(mkCmp(OpSle, c64(0), v))
			}
			return v
		}
	}
	intrinsics["(*math/rand.Rand).Read"] = mrand(0)
	intrinsics["(*math/rand.Rand).Int63"] = mrand(64)
	intrinsics["(*math/rand.Rand).Int"] = mrand(64)
	intrinsics["(*math/rand.Rand).Uint32"] = mrand(32)
	intrinsics["(*math/rand.Rand).Intn"] = func(ex *Exec, st *State, fr *Frame, c *ssa.Call, a []Value) Value {
		p := a[0].(*Ptr)
		ex.checkWrite(st, st.wobj(p.obj))
		n := a[1].(*Term)
		ex.oblige(st, mkCmp(OpSlt, c64(0), n), "panic:intn", "invalid argument to Intn")
		v := freshVar("mrand", BV(64))
		st.addPC(mkAnd(mkCmp(OpSle, c64(0), v), mkCmp(OpSlt, v, n)))
		return v
	}

	// ------------------------------------------------------------------ readers
	intrinsics["bytes.NewReader"] = func(ex *Exec, st *State, fr *Frame, c *ssa.Call, a []Value) Value {
		o := st.newObject(objCell, nil)
		o.val = &StructVal{}
		o.ext = &readerExt{src: a[0].(*SliceVal), pos: c64(0)}
		return &Ptr{obj: o.id}
	}
	intrinsics["bufio.NewReader"] = func(ex *Exec, st *State, fr *Frame, c *ssa.Call, a []Value) Value {
		r := a[0].(*IfaceVal)
		if r.typ == ex.opaqueT {
			if op, isOp := r.val.(*Opaque); isOp && op.desc == "crypto/rand.Reader" {
				// a buffered reader over the system random source: an object with a cursor and a buffer of
				// its own (not safe for concurrent use); every read from it is a write to that object
				o := st.newObject(objCell, nil)
				o.val = &StructVal{}
				o.ext = &randBufExt{}
				site, _ := ex.repoSite(st)
				o.site = "buffered reader over crypto/rand.Reader created at " + site
				return &Ptr{obj: o.id}
			}
		}
		p, ok := r.val.(*Ptr)
		if !ok || p.obj == 0 {
			panic(engineErr("bufio.NewReader on unmodelled reader"))
		}
		rd, ok := st.obj(p.obj).ext.(*readerExt)
		if !ok {
			panic(engineErr("bufio.NewReader on unmodelled reader"))
		}
		o := st.newObject(objCell, nil)
		o.val = &StructVal{}
		size := 4096
		if len(a) > 1 {
			size = ex.intArg(st, a[1], "bufio buffer size")
			if size < 16 {
				size = 16
			}
		}
		o.ext = &readerExt{src: rd.src, pos: rd.pos, size: size, bufEnd: rd.pos}
		return &Ptr{obj: o.id}
	}
	intrinsics["bufio.NewReaderSize"] = intrinsics["bufio.NewReader"]
	intrinsics["(*bufio.Reader).Read"] = func(ex *Exec, st *State, fr *Frame, c *ssa.Call, a []Value) Value {
		p := a[0].(*Ptr)
		if _, ok := st.obj(p.obj).ext.(*randBufExt); ok {
			ex.checkWrite(st, st.wobj(p.obj))
			return ex.randFill(st, a[1].(*SliceVal))
		}
		rd := st.obj(p.obj).ext.(*readerExt)
		buf := a[1].(*SliceVal)
		avail := mkBin(OpSub, rd.src.len, rd.pos)
		if !ex.branch(st, mkCmp(OpUlt, c64(0), buf.len)) {
			return &TupleVal{vals: []Value{c64(0), &IfaceVal{}}}
		}
		if !ex.branch(st, mkCmp(OpUlt, c64(0), avail)) {
			return &TupleVal{vals: []Value{c64(0), ex.stdGlobal(st, "io", "EOF")}}
		}
		end := rd.bufEnd
		var nt *Term
		if ex.branch(st, mkEq(rd.bufEnd, rd.pos)) {
			if ex.branch(st, mkCmp(OpUle, c64(rd.size), buf.len)) {
				nt = umin(buf.len, avail) // large read: straight from the source, the buffer stays empty
				end = mkBin(OpAdd, rd.pos, nt)
			} else {
				end = umin(mkBin(OpAdd, rd.pos, c64(rd.size)), rd.src.len) // one fill
				nt = umin(buf.len, mkBin(OpSub, end, rd.pos))
			}
		} else {
			nt = umin(buf.len, mkBin(OpSub, rd.bufEnd, rd.pos))
		}
		n := ex.concretize(st, nt, "bufio read count", 1<<16)
		src := &SliceVal{obj: rd.src.obj, off: mkBin(OpAdd, rd.src.off, rd.pos), len: c64(n), cap: c64(n), elem: rd.src.elem}
		ex.copyBytesN(st, buf, src, c64(n))
		w := st.wobj(p.obj).ext.(*readerExt)
		w.pos = mkBin(OpAdd, rd.pos, c64(n))
		w.bufEnd = end
		return &TupleVal{vals: []Value{c64(n), &IfaceVal{}}}
	}
	// bytes.NewBuffer(b) used as a *reader* over b: the same cursor model as bytes.Reader; Next returns a
	// view of b itself (no copy), which is what makes it dangerous in a decoder
	intrinsics["bytes.NewBuffer"] = func(ex *Exec, st *State, fr *Frame, c *ssa.Call, a []Value) Value {
		o := st.newObject(objCell, nil)
		o.val = &StructVal{}
		o.ext = &readerExt{src: a[0].(*SliceVal), pos: c64(0)}
		return &Ptr{obj: o.id}
	}
	intrinsics["(*bytes.Buffer).Next"] = func(ex *Exec, st *State, fr *Frame, c *ssa.Call, a []Value) Value {
		p := a[0].(*Ptr)
		rd, ok := st.obj(p.obj).ext.(*readerExt)
		if !ok {
			panic(engineErr("bytes.Buffer.Next on a buffer that is not a reader over a byte slice"))
		}
		n := a[1].(*Term)
		avail := mkBin(OpSub, rd.src.len, rd.pos)
		ex.oblige(st, mkCmp(OpSle, c64(0), n), "panic:slice", "bytes.Buffer.Next: negative count")
		take := umin(n, avail)
		k := ex.concretize(st, take, "bytes.Buffer.Next count", 1<<16)
		view := &SliceVal{obj: rd.src.obj, off: mkBin(OpAdd, rd.src.off, rd.pos), len: c64(k), cap: c64(k), elem: rd.src.elem}
		w := st.wobj(p.obj)
		w.ext.(*readerExt).pos = mkBin(OpAdd, rd.pos, c64(k))
		return view
	}
	intrinsics["(*bytes.Buffer).ReadByte"] = func(ex *Exec, st *State, fr *Frame, c *ssa.Call, a []Value) Value {
		p := a[0].(*Ptr)
		rd, ok := st.obj(p.obj).ext.(*readerExt)
		if !ok {
			panic(engineErr("bytes.Buffer.ReadByte on a buffer that is not a reader over a byte slice"))
		}
		avail := mkBin(OpSub, rd.src.len, rd.pos)
		if ex.branch(st, mkCmp(OpUlt, c64(0), avail)) {
			b := ex.byteAt(st, st.obj(rd.src.obj), mkBin(OpAdd, rd.src.off, rd.pos))
			w := st.wobj(p.obj)
			w.ext.(*readerExt).pos = mkBin(OpAdd, rd.pos, c64(1))
			return &TupleVal{vals: []Value{b, &IfaceVal{}}}
		}
		return &TupleVal{vals: []Value{mkBV(8, 0), ex.stdGlobal(st, "io", "EOF")}}
	}
	intrinsics["(*bufio.Reader).ReadByte"] = func(ex *Exec, st *State, fr *Frame, c *ssa.Call, a []Value) Value {
		p := a[0].(*Ptr)
		rd := st.obj(p.obj).ext.(*readerExt)
		avail := mkBin(OpSub, rd.src.len, rd.pos)
		if ex.branch(st, mkCmp(OpUlt, c64(0), avail)) {
			b := ex.byteAt(st, st.obj(rd.src.obj), mkBin(OpAdd, rd.src.off, rd.pos))
			w := st.wobj(p.obj)
			if e := rd.consumed(c64(1)); e != nil {
				w.ext.(*readerExt).bufEnd = e
			}
			w.ext.(*readerExt).pos = mkBin(OpAdd, rd.pos, c64(1))
			return &TupleVal{vals: []Value{b, &IfaceVal{}}}
		}
		return &TupleVal{vals: []Value{mkBV(8, 0), ex.stdGlobal(st, "io", "EOF")}}
	}

	intrinsics["(*bufio.Reader).Discard"] = func(ex *Exec, st *State, fr *Frame, c *ssa.Call, a []Value) Value {
		p := a[0].(*Ptr)
		rd := st.obj(p.obj).ext.(*readerExt)
		n := a[1].(*Term)
		avail := mkBin(OpSub, rd.src.len, rd.pos)
		ex.oblige(st, mkCmp(OpSle, c64(0), n), "panic:discard", "bufio: negative count")
		if ex.branch(st, mkCmp(OpUle, n, avail)) {
			w := st.wobj(p.obj)
			if e := rd.consumed(n); e != nil {
				w.ext.(*readerExt).bufEnd = e
			}
			w.ext.(*readerExt).pos = mkBin(OpAdd, rd.pos, n)
			return &TupleVal{vals: []Value{n, &IfaceVal{}}}
		}
		w := st.wobj(p.obj)
		w.ext.(*readerExt).pos = rd.src.len
		if rd.size != 0 {
			w.ext.(*readerExt).bufEnd = rd.src.len
		}
		return &TupleVal{vals: []Value{avail, ex.stdGlobal(st, "io", "EOF")}}
	}

	// ------------------------------------------------------------------ bytes.Buffer + binary.Write
	intrinsics["encoding/binary.Write"] = func(ex *Exec, st *State, fr *Frame, c *ssa.Call, a []Value) Value {
		w := a[0].(*IfaceVal)
		p, ok := w.val.(*Ptr)
		if !ok || p.obj == 0 {
			panic(engineErr("binary.Write to unmodelled writer"))
		}
		data := a[2].(*IfaceVal)
		var out []*Term
		switch v := data.val.(type) {
		case *Term:
			if v.sort.K == KBool {
				out = []*Term{mkIte(v, mkBV(8, 1), mkBV(8, 0))}
			} else {
				out = splitBytes(v, v.sort.W/8) // big endian (the only order used)
			}
		case *SliceVal:
			if !isByteElem(v.elem) {
				panic(engineErr("binary.Write of non-byte slice"))
			}
			out = ex.readBytes(st, v, "binary.Write data length")
		default:
			panic(engineErr("binary.Write of %T", data.val))
		}
		o := st.wobj(p.obj)
		be, _ := o.ext.(*bufExt)
		if be == nil {
			be = &bufExt{}
			o.ext = be
		}
		be.cells = append(be.cells, out...)
		return &IfaceVal{}
	}
	intrinsics["(*bytes.Buffer).Bytes"] = func(ex *Exec, st *State, fr *Frame, c *ssa.Call, a []Value) Value {
		p := a[0].(*Ptr)
		o := st.obj(p.obj)
		be, _ := o.ext.(*bufExt)
		if be == nil || len(be.cells) == 0 {
			return ex.newBytes(st, nil)
		}
		return ex.newBytes(st, be.cells)
	}
	intrinsics["(*bytes.Buffer).Write"] = func(ex *Exec, st *State, fr *Frame, c *ssa.Call, a []Value) Value {
		p := a[0].(*Ptr)
		out := ex.readBytes(st, a[1].(*SliceVal), "Buffer.Write length")
		o := st.wobj(p.obj)
		be, _ := o.ext.(*bufExt)
		if be == nil {
			be = &bufExt{}
			o.ext = be
		}
		be.cells = append(be.cells, out...)
		return &TupleVal{vals: []Value{c64(len(out)), &IfaceVal{}}}
	}
	intrinsics["(*bytes.Buffer).Reset"] = func(ex *Exec, st *State, fr *Frame, c *ssa.Call, a []Value) Value {
		o := st.wobj(a[0].(*Ptr).obj)
		ex.checkWrite(st, o)
		o.ext = &bufExt{}
		return nil
	}
	intrinsics[vrt+"PoolTake"] = func(ex *Exec, st *State, fr *Frame, c *ssa.Call, a []Value) Value {
		p := a[0].(*Ptr)
		o := st.obj(p.obj)
		pe, _ := o.ext.(*poolExt)
		if pe == nil || len(pe.items) == 0 {
			return &IfaceVal{}
		}
		w := st.wobj(p.obj)
		ex.checkWrite(st, w)
		it := pe.items[len(pe.items)-1]
		w.ext = &poolExt{items: append([]Value(nil), pe.items[:len(pe.items)-1]...)}
		return it
	}
	intrinsics["(*sync.Pool).Put"] = func(ex *Exec, st *State, fr *Frame, c *ssa.Call, a []Value) Value {
		p := a[0].(*Ptr)
		w := st.wobj(p.obj)
		ex.checkWrite(st, w)
		pe, _ := w.ext.(*poolExt)
		var items []Value
		if pe != nil {
			items = append(items, pe.items...)
		}
		w.ext = &poolExt{items: append(items, a[1])}
		return nil
	}
	// sync.Mutex / RWMutex: single-threaded executor, so the lock is a flag; locking a held lock can never
	// succeed (deadlock), which is reported
	lockOp := func(kind string) intrinsicFn {
		return func(ex *Exec, st *State, fr *Frame, c *ssa.Call, a []Value) Value {
			p := a[0].(*Ptr)
			o := st.obj(p.obj)
			key := fmt.Sprint(p.path)
			me, _ := o.ext.(*mutexExt)
			held := me != nil && me.held[key]
			set := func(v bool) {
				w := st.wobj(p.obj)
				n := &mutexExt{held: map[string]bool{}}
				if me != nil {
					for k, x := range me.held {
						n.held[k] = x
					}
				}
				n.held[key] = v
				w.ext = n
			}
			switch kind {
			case "lock":
				if held {
					ex.recordViolation(st, "deadlock", nil, "sync.Mutex locked while already held on this path")
					ex.endPath("violation:deadlock")
				}
				set(true)
				return nil
			case "trylock":
				if held {
					return mkBool(false)
				}
				set(true)
				return mkBool(true)
			default:
				if !held {
					ex.recordViolation(st, "panic:unlock", nil, "sync: unlock of unlocked mutex")
					ex.endPath("violation:panic:unlock")
				}
				set(false)
				return nil
			}
		}
	}
	for _, t := range []string{"(*sync.Mutex)", "(*sync.RWMutex)"} {
		intrinsics[t+".Lock"] = lockOp("lock")
		intrinsics[t+".TryLock"] = lockOp("trylock")
		intrinsics[t+".Unlock"] = lockOp("unlock")
	}
	intrinsics["(*sync.RWMutex).RLock"] = lockOp("lock")
	intrinsics["(*sync.RWMutex).RUnlock"] = lockOp("unlock")
	intrinsics["(*bytes.Buffer).Len"] = func(ex *Exec, st *State, fr *Frame, c *ssa.Call, a []Value) Value {
		be, _ := st.obj(a[0].(*Ptr).obj).ext.(*bufExt)
		if be == nil {
			return c64(0)
		}
		return c64(len(be.cells))
	}

	// ------------------------------------------------------------------ math/big
	intrinsics["(*math/big.Int).SetString"] = func(ex *Exec, st *State, fr *Frame, c *ssa.Call, a []Value) Value {
		s := ex.strArg(a[1])
		base := ex.intArg(st, a[2], "SetString base")
		v, ok := new(big.Int).SetString(s, base)
		if !ok || v.Sign() < 0 || v.BitLen() > bigW {
			return &TupleVal{vals: []Value{&Ptr{}, mkBool(false)}}
		}
		ex.setBig(st, a[0].(*Ptr), mkBigBV(bigW, v))
		return &TupleVal{vals: []Value{a[0], mkBool(true)}}
	}
	intrinsics["(*math/big.Int).SetUint64"] = func(ex *Exec, st *State, fr *Frame, c *ssa.Call, a []Value) Value {
		ex.setBig(st, a[0].(*Ptr), mkZext(bigW, a[1].(*Term)))
		return a[0]
	}
	intrinsics["(*math/big.Int).SetBytes"] = func(ex *Exec, st *State, fr *Frame, c *ssa.Call, a []Value) Value {
		bs := ex.readBytes(st, a[1].(*SliceVal), "SetBytes length")
		if len(bs)*8 > bigW {
			panic(engineErr("big.Int.SetBytes of %d octets exceeds the modelled width", len(bs)))
		}
		var t *Term
		if len(bs) == 0 {
			t = mkBV(bigW, 0)
		} else {
			t = ex.bigFromBytes(bs)
		}
		ex.setBig(st, a[0].(*Ptr), t)
		return a[0]
	}
	bigBin := func(op Op) intrinsicFn {
		return func(ex *Exec, st *State, fr *Frame, c *ssa.Call, a []Value) Value {
			x, y := ex.bigOf(st, a[1].(*Ptr)), ex.bigOf(st, a[2].(*Ptr))
			if op == OpURem {
				ex.oblige(st, mkNot(mkEq(y, mkBV(bigW, 0))), "panic:divzero", "big.Int: division by zero")
				if xv, ok := x.ConstBig(); ok {
					if yv, ok := y.ConstBig(); ok && yv.Sign() > 0 {
						ex.setBig(st, a[0].(*Ptr), mkBigBV(bigW, new(big.Int).Mod(xv, yv)))
						return a[0]
					}
				}
			}
			// non-negative values only (the library never builds negative ones); Sub is assumed not to go below zero
			if op == OpSub {
				ex.oblige(st, mkCmp(OpUle, y, x), "engine:big-negative", "big.Int subtraction below zero is outside the modelled domain")
			}
			if op == OpURem {
				if yv, ok := y.ConstBig(); ok && yv.Sign() > 0 && yv.BitLen() < bigW-1 {
					// remainder by a constant: when the dividend is known to be below twice the modulus (one cheap
					// comparison query) the remainder is a conditional subtraction, which the solver can handle;
					// a 2176-bit bvurem is out of its reach
					two := mkBigBV(bigW, new(big.Int).Lsh(yv, 1))
					if r, _ := ex.check(st, mkCmp(OpUle, two, x), nil); r == Unsat {
						ex.setBig(st, a[0].(*Ptr), mkIte(mkCmp(OpUlt, x, y), x, mkBin(OpSub, x, y)))
						return a[0]
					}
				}
				// any other remainder of wide operands: an uninterpreted function with the two facts that matter
				// (below the modulus; the identity on values below the modulus) - a bvurem of this width never
				// comes back from the solver
				if !(x.IsConst() && y.IsConst()) {
					r := mkUF("bigmod", BV(bigW), x, y)
					st.addPC(mkOr(mkEq(y, mkBV(bigW, 0)), mkCmp(OpUlt, r, y)))
					st.addPC(mkOr(mkNot(mkCmp(OpUlt, x, y)), mkEq(r, x)))
					ex.setBig(st, a[0].(*Ptr), r)
					return a[0]
				}
			}
			ex.setBig(st, a[0].(*Ptr), mkBin(op, x, y))
			return a[0]
		}
	}
	intrinsics["(*math/big.Int).Mod"] = bigBin(OpURem)
	intrinsics["(*math/big.Int).Rem"] = bigBin(OpURem)
	intrinsics["(*math/big.Int).Add"] = bigBin(OpAdd)
	intrinsics["(*math/big.Int).Sub"] = bigBin(OpSub)
	intrinsics["(*math/big.Int).Set"] = func(ex *Exec, st *State, fr *Frame, c *ssa.Call, a []Value) Value {
		ex.setBig(st, a[0].(*Ptr), ex.bigOf(st, a[1].(*Ptr)))
		return a[0]
	}
	intrinsics["math/big.NewInt"] = func(ex *Exec, st *State, fr *Frame, c *ssa.Call, a []Value) Value {
		v := a[0].(*Term)
		ex.oblige(st, mkCmp(OpSle, mkBV(64, 0), v), "engine:big-negative", "negative big.Int is outside the modelled domain")
		return ex.newBig(st, mkZext(bigW, v))
	}
	intrinsics["(*math/big.Int).BitLen"] = func(ex *Exec, st *State, fr *Frame, c *ssa.Call, a []Value) Value {
		x := ex.bigOf(st, a[0].(*Ptr))
		if v, ok := x.ConstBig(); ok {
			return c64(v.BitLen())
		}
		panic(engineErr("big.Int.BitLen of a symbolic value"))
	}
	intrinsics["(*math/big.Int).Sign"] = func(ex *Exec, st *State, fr *Frame, c *ssa.Call, a []Value) Value {
		x := ex.bigOf(st, a[0].(*Ptr))
		return mkIte(mkEq(x, mkBV(bigW, 0)), c64(0), c64(1))
	}
	intrinsics["(*math/big.Int).Lsh"] = func(ex *Exec, st *State, fr *Frame, c *ssa.Call, a []Value) Value {
		n := ex.intArg(st, a[2], "big.Int.Lsh amount")
		ex.setBig(st, a[0].(*Ptr), mkBin(OpShl, ex.bigOf(st, a[1].(*Ptr)), mkBV(bigW, uint64(n))))
		return a[0]
	}
	intrinsics["(*math/big.Int).Rsh"] = func(ex *Exec, st *State, fr *Frame, c *ssa.Call, a []Value) Value {
		n := ex.intArg(st, a[2], "big.Int.Rsh amount")
		ex.setBig(st, a[0].(*Ptr), mkBin(OpLshr, ex.bigOf(st, a[1].(*Ptr)), mkBV(bigW, uint64(n))))
		return a[0]
	}
	intrinsics["(*math/big.Int).Cmp"] = func(ex *Exec, st *State, fr *Frame, c *ssa.Call, a []Value) Value {
		x, y := ex.bigOf(st, a[0].(*Ptr)), ex.bigOf(st, a[1].(*Ptr))
		return mkIte(mkCmp(OpUlt, x, y), mkBV(64, ^uint64(0)), mkIte(mkEq(x, y), c64(0), c64(1)))
	}
	intrinsics["(*math/big.Int).Exp"] = func(ex *Exec, st *State, fr *Frame, c *ssa.Call, a []Value) Value {
		b, e, m := ex.bigOf(st, a[1].(*Ptr)), ex.bigOf(st, a[2].(*Ptr)), ex.bigOf(st, a[3].(*Ptr))
		r := ex.modexp(st, b, e, m)
		ex.setBig(st, a[0].(*Ptr), r)
		return a[0]
	}
	intrinsics["(*math/big.Int).Bytes"] = func(ex *Exec, st *State, fr *Frame, c *ssa.Call, a []Value) Value {
		x := ex.bigOf(st, a[0].(*Ptr))
		if v, ok := x.ConstBig(); ok {
			bs := v.Bytes()
			cells := make([]*Term, len(bs))
			for i, b := range bs {
				cells[i] = mkBV(8, uint64(b))
			}
			return ex.newBytes(st, cells)
		}
		if ex.cfg.BytesFull && x.op == OpUF && x.name == "modexp" {
			if mv, ok := x.args[2].ConstBig(); ok {
				l := (mv.BitLen() + 7) / 8
				st.addPC(mkCmp(OpUle, mkBigBV(bigW, new(big.Int).Lsh(big.NewInt(1), uint(8*(l-1)))), x))
				return ex.newBytes(st, splitBytes(mkExtract(8*l-1, 0, x), l))
			}
		}
		// fork over the minimal big-endian length
		nb := bigW / 8
		conds := make([]*Term, nb+1)
		for l := 0; l <= nb; l++ {
			var lo, hi *Term
			if l == 0 {
				conds[l] = mkEq(x, mkBV(bigW, 0))
				continue
			}
			lo = mkCmp(OpUle, mkBigBV(bigW, new(big.Int).Lsh(big.NewInt(1), uint(8*(l-1)))), x)
			if l == nb {
				hi = mkBool(true)
			} else {
				hi = mkCmp(OpUlt, x, mkBigBV(bigW, new(big.Int).Lsh(big.NewInt(1), uint(8*l))))
			}
			conds[l] = mkAnd(lo, hi)
		}
		exhaustive := true
		if len(ex.cfg.BytesLens) > 0 {
			// bounded: only the listed minimal lengths are explored (stated in the evidence)
			keep := map[int]bool{}
			for _, l := range ex.cfg.BytesLens {
				keep[l] = true
			}
			for l := range conds {
				if !keep[l] {
					conds[l] = mkBool(false)
				}
			}
			exhaustive = false
		}
		l := ex.choose(st, conds, exhaustive)
		if l == 0 {
			return ex.newBytes(st, nil)
		}
		return ex.newBytes(st, splitBytes(mkExtract(8*l-1, 0, x), l))
	}
}

const bigW = 2176

// ---------------------------------------------------------------------------
// ext objects

type hmacExt struct {
	kind string
	key  []*Term
	buf  []*Term
}

func (h *hmacExt) cloneExt() Ext {
	n := *h
	n.buf = append([]*Term(nil), h.buf...)
	return &n
}

type aesExt struct{ key []*Term }

func (a *aesExt) cloneExt() Ext { return a }

type cbcExt struct {
	enc bool
	key []*Term
	iv  *Term
}

func (c *cbcExt) cloneExt() Ext { n := *c; return &n }

type readerExt struct {
	src *SliceVal
	pos *Term
	// bufio.Reader over a bytes.Reader: size of its buffer and the source position up to which octets are
	// buffered (bufEnd == pos: empty).  Only a direct Read call can observe the buffer (it returns at most
	// what one fill delivers); ReadByte / io.ReadFull / Discard keep the bookkeeping exact.
	size   int
	bufEnd *Term
}

func umin(a, b *Term) *Term { return mkIte(mkCmp(OpUle, a, b), a, b) }

// consumed returns the buffer end after n octets (all available) have been consumed through
// ReadFull / Discard / ReadByte, following bufio's rules for a source that delivers everything it has.
func (r *readerExt) consumed(n *Term) *Term {
	if r.size == 0 {
		return nil
	}
	// the whole source fits the buffer: the first fill takes everything, the buffer end is the source end
	if k, ok := concreteInt(r.src.len); ok && k <= r.size {
		return r.src.len
	}
	buffered := mkBin(OpSub, r.bufEnd, r.pos)
	rest := mkBin(OpSub, n, buffered)
	direct := mkCmp(OpUle, c64(r.size), rest)
	return mkIte(mkCmp(OpUle, n, buffered), r.bufEnd,
		mkIte(direct, mkBin(OpAdd, r.pos, n), umin(mkBin(OpAdd, r.bufEnd, c64(r.size)), r.src.len)))
}

func (r *readerExt) cloneExt() Ext { n := *r; return &n }

type bufExt struct{ cells []*Term }

func (b *bufExt) cloneExt() Ext { return &bufExt{cells: append([]*Term(nil), b.cells...)} }

type randBufExt struct{}

func (m *randBufExt) cloneExt() Ext { return m }

type syncMapExt struct{ keys, vals []Value }

func (m *syncMapExt) cloneExt() Ext { return m }

type mathRandExt struct{}

func (m *mathRandExt) cloneExt() Ext { return m }

type mutexExt struct{ held map[string]bool }

func (m *mutexExt) cloneExt() Ext { return m }

type poolExt struct{ items []Value }

func (p *poolExt) cloneExt() Ext { return &poolExt{items: append([]Value(nil), p.items...)} }

type bigExt struct{ val *Term }

func (b *bigExt) cloneExt() Ext { return b }

func hashOutLen(kind string) int {
	switch kind {
	case "md5":
		return 16
	case "sha1":
		return 20
	}
	return 32
}

func joinBytes(bs []*Term) *Term {
	if len(bs) == 0 {
		panic(engineErr("joinBytes of nothing"))
	}
	return mkConcat(bs...)
}

func splitBytes(t *Term, n int) []*Term {
	out := make([]*Term, n)
	for i := 0; i < n; i++ {
		hi := 8*(n-i) - 1
		out[i] = mkExtract(hi, hi-7, t)
	}
	return out
}

func allConst(bs []*Term) ([]byte, bool) {
	out := make([]byte, len(bs))
	for i, b := range bs {
		v, ok := b.ConstU()
		if !ok {
			return nil, false
		}
		out[i] = byte(v)
	}
	return out, true
}

func constBytes(b []byte) []*Term {
	out := make([]*Term, len(b))
	for i, x := range b {
		out[i] = mkBV(8, uint64(x))
	}
	return out
}

// hmacUF: the keyed hash as an uninterpreted function per (hash, key length, message length);
// with constant arguments it is evaluated by the real primitive (concrete mode / folding).
func hmacUF(kind string, key, msg []*Term) []*Term {
	if kb, ok := allConst(key); ok {
		if mb, ok := allConst(msg); ok {
			var ctor func() hash.Hash
			switch kind {
			case "md5":
				ctor = md5.New
			case "sha1":
				ctor = sha1.New
			default:
				ctor = sha256.New
			}
			h := hmac.New(ctor, kb)
			h.Write(mb)
			return constBytes(h.Sum(nil))
		}
	}
	name := fmt.Sprintf("HMAC_%s_k%d_m%d", kind, len(key), len(msg))
	var args []*Term
	if len(key) > 0 {
		args = append(args, joinBytes(key))
	}
	if len(msg) > 0 {
		args = append(args, joinBytes(msg))
	}
	n := hashOutLen(kind)
	return splitBytes(mkUF(name, BV(8*n), args...), n)
}

// aesUF: one block operation.  D(k, E(k, x)) rewrites to x and E(k, D(k, y)) to y.
func (ex *Exec) aesUF(st *State, enc bool, key []*Term, blk *Term) *Term {
	if kb, ok := allConst(key); ok {
		if bb, ok := allConst(splitBytes(blk, 16)); ok {
			c, err := aes.NewCipher(kb)
			if err != nil {
				panic(engineErr("aes: %v", err))
			}
			out := make([]byte, 16)
			if enc {
				c.Encrypt(out, bb)
			} else {
				c.Decrypt(out, bb)
			}
			return joinBytes(constBytes(out))
		}
	}
	k := joinBytes(key)
	en := fmt.Sprintf("AES_E_k%d", len(key))
	dn := fmt.Sprintf("AES_D_k%d", len(key))
	self, other := en, dn
	if !enc {
		self, other = dn, en
	}
	if blk.op == OpUF && blk.name == other && blk.args[0] == k {
		return blk.args[1]
	}
	return mkUF(self, BV(128), k, blk)
}

func (ex *Exec) eqBytes(st *State, a, b *SliceVal) *Term {
	if a.obj == 0 && b.obj == 0 {
		return mkBool(true)
	}
	la, oka := concreteInt(a.len)
	lb, okb := concreteInt(b.len)
	if oka && okb {
		if la != lb {
			return mkBool(false)
		}
		cs := make([]*Term, la)
		for i := 0; i < la; i++ {
			x := ex.byteAt(st, st.obj(a.obj), mkBin(OpAdd, a.off, c64(i)))
			y := ex.byteAt(st, st.obj(b.obj), mkBin(OpAdd, b.off, c64(i)))
			cs[i] = mkEq(x, y)
		}
		return mkAnd(cs...)
	}
	// symbolic length: decide length equality first, then compare under a concrete length
	leq := mkEq(a.len, b.len)
	if !ex.branch(st, leq) {
		return mkBool(false)
	}
	var n int
	if oka {
		n = la
	} else if okb {
		n = lb
	} else {
		n = ex.concretize(st, a.len, "EqBytes length", 4096)
	}
	cs := make([]*Term, n)
	for i := 0; i < n; i++ {
		var x, y *Term
		x = ex.byteAt(st, st.obj(a.obj), mkBin(OpAdd, a.off, c64(i)))
		y = ex.byteAt(st, st.obj(b.obj), mkBin(OpAdd, b.off, c64(i)))
		cs[i] = mkEq(x, y)
	}
	return mkAnd(cs...)
}

// reach collects the ids of all objects reachable from v.
func (ex *Exec) reach(st *State, v Value, ids map[int]bool) {
	visit := func(id int) {
		if id == 0 || ids[id] {
			return
		}
		ids[id] = true
		o := st.heap[id]
		if o == nil {
			return
		}
		switch o.kind {
		case objCell:
			ex.reach(st, o.val, ids)
		case objArr:
			for _, e := range o.elems {
				ex.reach(st, e, ids)
			}
		case objMap:
			for _, e := range o.entries {
				ex.reach(st, e.key, ids)
				ex.reach(st, e.val, ids)
			}
		}
	}
	switch x := v.(type) {
	case *Ptr:
		visit(x.obj)
	case *SliceVal:
		visit(x.obj)
	case *MapVal:
		visit(x.obj)
	case *IfaceVal:
		ex.reach(st, x.val, ids)
	case *ExtRef:
		visit(x.obj)
	case *StructVal:
		for _, f := range x.fields {
			ex.reach(st, f, ids)
		}
	case *ArrayVal:
		for _, e := range x.elems {
			ex.reach(st, e, ids)
		}
	case *TupleVal:
		for _, e := range x.vals {
			ex.reach(st, e, ids)
		}
	case *FuncVal:
		for _, b := range x.bindings {
			ex.reach(st, b, ids)
		}
	}
}

func (ex *Exec) boolSlice(st *State, v Value) []*Term {
	s := v.(*SliceVal)
	if s.obj == 0 {
		return nil
	}
	n, _ := concreteInt(s.len)
	off, _ := concreteInt(s.off)
	o := st.obj(s.obj)
	out := make([]*Term, n)
	for i := 0; i < n; i++ {
		out[i] = o.elems[off+i].(*Term)
	}
	return out
}

// randRead models one Read call on crypto/rand.Reader used directly as an io.Reader: besides filling the
// buffer it may deliver fewer octets (at least one) without an error, which is all io.Reader promises.
// formatCells models the part of fmt's formatting whose result is data in this code base: the octets of the
// format string are copied, with the verbs %c (one octet below 0x80), %d (concrete), %s (string) and %%
// expanded, provided no '%' hides in symbolic octets of the format (the executor forks on that: with
// one, the result is opaque - and differs from whatever the caller meant to build).  ok = false: opaque.
func (ex *Exec) formatCells(st *State, f *StrVal, vargs Value) ([]*Term, bool) {
	var args []Value
	if va, ok := vargs.(*SliceVal); ok && va.obj != 0 {
		n, okn := concreteInt(va.len)
		off, oko := concreteInt(va.off)
		o := st.obj(va.obj)
		if !okn || !oko || o.kind != objArr {
			return nil, false
		}
		for i := 0; i < n; i++ {
			args = append(args, o.elems[off+i])
		}
	}
	var pct []*Term
	for _, ch := range f.cells {
		if !ch.IsConst() {
			pct = append(pct, mkEq(ch, mkBV(8, '%')))
		}
	}
	if len(pct) > 0 && ex.branch(st, mkOr(pct...)) {
		return nil, false
	}
	var out []*Term
	next := 0
	for i := 0; i < len(f.cells); i++ {
		ch := f.cells[i]
		v, isC := ch.ConstU()
		if !isC || v != '%' {
			out = append(out, ch)
			continue
		}
		if i+1 >= len(f.cells) {
			return nil, false
		}
		verb, okv := f.cells[i+1].ConstU()
		if !okv {
			return nil, false
		}
		i++
		if verb == '%' {
			out = append(out, mkBV(8, '%'))
			continue
		}
		if next >= len(args) {
			return nil, false
		}
		arg := args[next]
		next++
		if iv, ok := arg.(*IfaceVal); ok {
			arg = iv.val
		}
		switch verb {
		case 'c':
			t, ok := arg.(*Term)
			if !ok {
				return nil, false
			}
			n, okc := t.ConstU()
			if !okc || n >= 0x80 {
				return nil, false
			}
			out = append(out, mkBV(8, n))
		case 'd':
			t, ok := arg.(*Term)
			if !ok {
				return nil, false
			}
			n, okc := t.ConstU()
			if !okc || t.sort.W > 64 || int64(n) < 0 {
				return nil, false
			}
			out = append(out, strConst(fmt.Sprintf("%d", n)).cells...)
		case 's':
			sv, ok := arg.(*StrVal)
			if !ok {
				return nil, false
			}
			out = append(out, sv.cells...)
		default:
			return nil, false
		}
	}
	if next != len(args) {
		return nil, false
	}
	return out, true
}

func (ex *Exec) randRead(st *State, buf *SliceVal) Value {
	n := ex.concretize(st, buf.len, "random read length", 4096)
	short := 0
	for _, d := range st.draws {
		if d.Kind == "randshort" {
			short++
		}
	}
	if n < 2 || ex.cfg.Concrete || short >= 1 {
		return ex.randFill(st, buf) // bound: only the first direct Read on a path may be short
	}
	// (a forked alternative re-executes this call with its choice forced: nothing may be recorded in the
	// state before the choice is made)
	sel := freshVar("randshort", BV(8))
	conds := []*Term{mkEq(sel, mkBV(8, 0)), mkEq(sel, mkBV(8, 1)), mkEq(sel, mkBV(8, 2))}
	k := n
	switch ex.choose(st, conds, false) {
	case 1:
		k = 1
	case 2:
		k = n - 1
	}
	isShort := 0
	if k != n {
		isShort = 1
	}
	st.draws = append(st.draws, Draw{Kind: "randshort", N: isShort, ts: []*Term{sel}})
	if k == n {
		return ex.randFill(st, buf)
	}
	st.randCnt++
	if st.faultAt == st.randCnt {
		return &TupleVal{vals: []Value{c64(0), ex.newOpaqueError("random source: injected failure")}}
	}
	ts := ex.drawBytes(st, "rand", k)
	for i, t := range ts {
		ex.setByte(st, buf.obj, mkBin(OpAdd, buf.off, c64(i)), t)
	}
	return &TupleVal{vals: []Value{c64(k), &IfaceVal{}}}
}

func (ex *Exec) randFill(st *State, buf *SliceVal) Value {
	st.randCnt++
	if st.faultAt == st.randCnt {
		return &TupleVal{vals: []Value{c64(0), ex.newOpaqueError("random source: injected failure")}}
	}
	n := ex.concretize(st, buf.len, "random read length", 4096)
	ts := ex.drawBytes(st, "rand", n)
	for i, t := range ts {
		ex.setByte(st, buf.obj, mkBin(OpAdd, buf.off, c64(i)), t)
	}
	return &TupleVal{vals: []Value{c64(n), &IfaceVal{}}}
}

func (ex *Exec) readerReadFull(st *State, robj int, rd *readerExt, buf *SliceVal) Value {
	n := buf.len
	avail := mkBin(OpSub, rd.src.len, rd.pos)
	conds := []*Term{
		mkEq(n, c64(0)),
		mkAnd(mkNot(mkEq(n, c64(0))), mkCmp(OpUle, n, avail)),
		mkAnd(mkNot(mkEq(n, c64(0))), mkEq(avail, c64(0))),
		mkAnd(mkCmp(OpUlt, avail, n), mkNot(mkEq(avail, c64(0)))),
	}
	switch ex.choose(st, conds, true) {
	case 0:
		return &TupleVal{vals: []Value{c64(0), &IfaceVal{}}}
	case 1:
		src := &SliceVal{obj: rd.src.obj, off: mkBin(OpAdd, rd.src.off, rd.pos), len: n, cap: n, elem: rd.src.elem}
		ex.copyBytesN(st, buf, src, n)
		w := st.wobj(robj)
		if e := rd.consumed(n); e != nil {
			w.ext.(*readerExt).bufEnd = e
		}
		w.ext.(*readerExt).pos = mkBin(OpAdd, rd.pos, n)
		return &TupleVal{vals: []Value{n, &IfaceVal{}}}
	case 2:
		return &TupleVal{vals: []Value{c64(0), ex.stdGlobal(st, "io", "EOF")}}
	default:
		// short read: the octets that are available are copied, the rest of buf keeps its content
		if k, ok := concreteInt(avail); ok {
			src := &SliceVal{obj: rd.src.obj, off: mkBin(OpAdd, rd.src.off, rd.pos), len: avail, cap: avail, elem: rd.src.elem}
			ex.copyBytesN(st, buf, src, c64(k))
		} else {
			o := st.wobj(buf.obj)
			if o.cells != nil {
				o = ex.materialize(st, buf.obj)
			}
			o.arr = freshVar("shortread", ArrSort)
		}
		w := st.wobj(robj)
		w.ext.(*readerExt).pos = rd.src.len
		if rd.size != 0 {
			w.ext.(*readerExt).bufEnd = rd.src.len
		}
		return &TupleVal{vals: []Value{avail, ex.stdGlobal(st, "io", "ErrUnexpectedEOF")}}
	}
}

// ---- big integers -------------------------------------------------------------------------

func (ex *Exec) bigOf(st *State, p *Ptr) *Term {
	if p.obj == 0 {
		ex.recordViolation(st, "panic:nil", nil, "nil *big.Int")
		ex.endPath("violation:panic:nil")
	}
	o := st.obj(p.obj)
	if be, ok := o.ext.(*bigExt); ok {
		return be.val
	}
	return mkBV(bigW, 0)
}

func (ex *Exec) setBig(st *State, p *Ptr, v *Term) {
	if p.obj == 0 {
		ex.recordViolation(st, "panic:nil", nil, "nil *big.Int")
		ex.endPath("violation:panic:nil")
	}
	o := st.wobj(p.obj)
	ex.checkWrite(st, o)
	o.ext = &bigExt{val: v}
}

func (ex *Exec) newBig(st *State, v *Term) *Ptr {
	o := st.newObject(objCell, nil)
	o.val = &StructVal{}
	o.ext = &bigExt{val: v}
	return &Ptr{obj: o.id}
}

// bigFromBytes: big-endian octets to a big integer term.  The fixed-length image of a modexp result
// (low octets of a value known to be below its modulus) is recognised and mapped back to the value.
func (ex *Exec) bigFromBytes(bs []*Term) *Term {
	j := joinBytes(bs)
	if j.op == OpExtract && j.b == 0 {
		x := j.args[0]
		if x.sort.W == bigW && x.op == OpUF && x.name == "modexp" {
			if mv, ok := x.args[2].ConstBig(); ok && mv.Sign() > 0 && mv.BitLen() <= j.a+1 {
				return x
			}
		}
	}
	return mkZext(bigW, j)
}

// modexp: uninterpreted, with result < m for m > 0 and the commutation instance
// modexp(modexp(g,a,m),b,m) = modexp(modexp(g,b,m),a,m) added whenever a nested application appears.
func (ex *Exec) modexp(st *State, b, e, m *Term) *Term {
	if bb, ok := b.ConstBig(); ok {
		if eb, ok := e.ConstBig(); ok {
			if mb, ok := m.ConstBig(); ok && mb.Sign() > 0 {
				return mkBigBV(bigW, new(big.Int).Exp(bb, eb, mb))
			}
		}
	}
	r := mkUF("modexp", BV(bigW), b, e, m)
	st.addPC(mkImplies(mkCmp(OpUlt, mkBV(bigW, 0), m), mkCmp(OpUlt, r, m)))
	if b.op == OpUF && b.name == "modexp" && b.args[2] == m {
		g, a := b.args[0], b.args[1]
		other := mkUF("modexp", BV(bigW), mkUF("modexp", BV(bigW), g, e, m), a, m)
		st.addPC(mkEq(r, other))
	}
	return r
}

// ---- dispatch on engine-level interface values ---------------------------------------------

func (ex *Exec) extMethod(st *State, fr *Frame, call *ssa.Call, ref *ExtRef, name string, args []Value) Value {
	o := st.obj(ref.obj)
	switch e := o.ext.(type) {
	case *hmacExt:
		switch name {
		case "Write":
			data := ex.readBytes(st, args[0].(*SliceVal), "hash write length")
			w := st.wobj(ref.obj).ext.(*hmacExt)
			w.buf = append(w.buf, data...)
			return &TupleVal{vals: []Value{c64(len(data)), &IfaceVal{}}}
		case "Reset":
			st.wobj(ref.obj).ext.(*hmacExt).buf = nil
			return nil
		case "Size":
			return c64(hashOutLen(e.kind))
		case "BlockSize":
			return c64(64)
		case "Sum":
			st.hits["mac"]++
			out := hmacUF(e.kind, e.key, e.buf)
			return ex.appendBytes(st, args[0].(*SliceVal), ex.newBytes(st, out))
		}
	case *aesExt:
		switch name {
		case "BlockSize":
			return c64(16)
		case "Encrypt", "Decrypt":
			dst, src := args[0].(*SliceVal), args[1].(*SliceVal)
			ex.oblige(st, mkAnd(mkCmp(OpUle, c64(16), src.len), mkCmp(OpUle, c64(16), dst.len)), "panic:aes-block", "crypto/aes: input or output not full block")
			in := make([]*Term, 16)
			for i := range in {
				in[i] = ex.byteAt(st, st.obj(src.obj), mkBin(OpAdd, src.off, c64(i)))
			}
			out := splitBytes(ex.aesUF(st, name == "Encrypt", e.key, joinBytes(in)), 16)
			for i, t := range out {
				ex.setByte(st, dst.obj, mkBin(OpAdd, dst.off, c64(i)), t)
			}
			return nil
		}
	case *cbcExt:
		switch name {
		case "BlockSize":
			return c64(16)
		case "CryptBlocks":
			st.hits["cipher"]++
			for _, g := range st.guards {
				ex.oblige(st, g.cond, g.label, "cipher invoked although the guard condition is not implied")
			}
			dst, src := args[0].(*SliceVal), args[1].(*SliceVal)
			ex.oblige(st, mkEq(mkBin(OpURem, src.len, c64(16)), c64(0)), "panic:cryptblocks", "crypto/cipher: input not full blocks")
			ex.oblige(st, mkCmp(OpUle, src.len, dst.len), "panic:cryptblocks", "crypto/cipher: output smaller than input")
			in := ex.readBytes(st, src, "CryptBlocks length")
			prev := e.iv
			out := make([]*Term, 0, len(in))
			for i := 0; i+16 <= len(in); i += 16 {
				blk := joinBytes(in[i : i+16])
				if e.enc {
					c := ex.aesUF(st, true, e.key, mkBin(OpBXor, blk, prev))
					out = append(out, splitBytes(c, 16)...)
					prev = c
				} else {
					p := mkBin(OpBXor, ex.aesUF(st, false, e.key, blk), prev)
					out = append(out, splitBytes(p, 16)...)
					prev = blk
				}
			}
			for i, t := range out {
				ex.setByte(st, dst.obj, mkBin(OpAdd, dst.off, c64(i)), t)
			}
			if !e.enc && !ex.cfg.Concrete && len(out) > 0 {
				// the decrypted octets are values of the uninterpreted D: report them with the model so that
				// a native replay can construct a ciphertext that really decrypts to them
				st.draws = append(st.draws, Draw{Kind: "cbcdec", N: len(out), ts: out})
			}
			st.wobj(ref.obj).ext.(*cbcExt).iv = prev
			return nil
		}
	}
	panic(engineErr("method %s on engine object %T", name, o.ext))
}

// witness: for every assertion / cover site reached keep one model of the path condition, so that
// harnesses whose assertions are unreachable (vacuous) are detected and a sample can be replayed.
func (ex *Exec) witness(st *State, label string) {
	for _, w := range ex.res.Witnesses {
		if w.Label == label {
			return
		}
	}
	want := ex.drawTerms(st)
	nd := len(want)
	for _, o := range st.outputs {
		want = append(want, o.ts...)
	}
	r, vals := ex.check(st, nil, want)
	if r != Sat {
		return
	}
	site, fn := "end of path", ""
	if len(st.frames) > 0 {
		site, fn = ex.repoSite(st)
	}
	w := &Violation{Label: label, Site: site, Func: fn, PCSize: len(st.pc)}
	if vals != nil || len(want) == 0 {
		w.Model = ex.modelOf(st, vals)
		// values the engine computes for the recorded outputs under this model (only outputs free of
		// uninterpreted functions are comparable with the native run)
		p := nd
		for _, o := range st.outputs {
			hasUF := false
			for _, t := range o.ts {
				if termHasUF(t, map[int]bool{}) {
					hasUF = true
				}
			}
			var sb strings.Builder
			for range o.ts {
				fmt.Fprintf(&sb, "%02x", vals[p].Uint64())
				p++
			}
			if !hasUF {
				if w.Extra == nil {
					w.Extra = map[string]string{}
				}
				w.Extra["output:"+o.label] = sb.String()
			}
		}
	}
	ex.res.Witnesses = append(ex.res.Witnesses, w)
}

func termHasUF(t *Term, seen map[int]bool) bool {
	if seen[t.id] {
		return false
	}
	seen[t.id] = true
	if t.op == OpUF {
		return true
	}
	for _, a := range t.args {
		if termHasUF(a, seen) {
			return true
		}
	}
	return false
}
