#!/bin/sh
# Builds the engine offline and warms the Go build cache used by native replay.
set -e
cd "$(dirname "$0")"
export GOFLAGS=-mod=mod GOPROXY=off GOSUMDB=off GOTOOLCHAIN=local
(cd engine && go build -o gosmt .)
# warm the build cache for replay (test binaries of the harness packages with the overlay)
python3 - <<'PY'
import sys, os, json, subprocess, tempfile
sys.path.insert(0, "lib")
import runner
d = tempfile.mkdtemp(prefix="verif-setup-")
ov = os.path.join(d, "overlay.json")
json.dump(runner.overlay_json({}), open(ov, "w"))
r = subprocess.run(["go", "test", "-overlay", ov, "-vet=off", "-count=1", "-run", "^$", "./..."], cwd=runner.REPO, env=runner.GOENV, capture_output=True, text=True)
print(r.stdout[-2000:], r.stderr[-2000:])
import shutil; shutil.rmtree(d)
sys.exit(r.returncode)
PY
echo setup ok
