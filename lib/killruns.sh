#!/bin/sh
# stops running checks and their engine / solver processes (development helper)
pgrep -f "python3 ./check" | xargs -r kill 2>/dev/null
pgrep -f "python3 /verif/check" | xargs -r kill 2>/dev/null
pgrep -x gosmt | xargs -r kill 2>/dev/null
pgrep -x z3 | xargs -r kill 2>/dev/null
pgrep -x cvc5 | xargs -r kill 2>/dev/null
true
