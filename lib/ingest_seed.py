#!/usr/bin/env python3
"""ingest_seed.py <prop> [checks...]   (development helper)
Takes /tmp/seed/<prop>/_seed/{patchN.diff,demoN_test.go,notesN.md}, verifies each change independently in
a fresh scratch worktree (applies, builds, repo tests pass, demo fails with it and passes without it),
stores it as /verif/seeded/<prop>-<N>/ and runs the named checks (default: the property's own) against it."""
import subprocess, sys, os, json, shutil, tempfile, re
V = os.path.dirname(os.path.dirname(os.path.abspath(__file__)))
prop = sys.argv[1]
checks = [a for a in sys.argv[2:] if not a.startswith("--")] or [prop]
root = "/tmp/seed"
offset = 0
for a in sys.argv[2:]:
    if a.startswith("--root="):
        root = a[7:]
    if a.startswith("--offset="):
        offset = int(a[9:])
src = "%s/%s/_seed" % (root, prop)
env = dict(os.environ, GOFLAGS="-mod=mod", GOPROXY="off", GOSUMDB="off", GOTOOLCHAIN="local")
def sh(cmd, **kw):
    return subprocess.run(cmd, shell=True, capture_output=True, text=True, env=env, **kw)
for n in (1, 2, 3):
    patch = os.path.join(src, "patch%d.diff" % n)
    demo = os.path.join(src, "demo%d_test.go" % n)
    if not os.path.exists(patch):
        continue
    wt = tempfile.mkdtemp(prefix="ing-%s-%d-" % (prop, n), dir="/tmp"); os.rmdir(wt)
    sh("git -C /repo worktree add --detach %s HEAD" % wt)
    ran = []
    ok = True
    try:
        first = open(demo).readline()
        m = re.search(r"dir:\s*(\S+)", first)
        ddir = m.group(1).strip("/") if m else "."
        if ddir in (".", "root", "/"): ddir = ""
        target = os.path.join(wt, ddir, "zz_seed_demo%d_test.go" % n)
        shutil.copy(demo, target)
        r = sh("go test -vet=off -count=1 ./%s 2>&1 | tail -5" % ddir, cwd=wt); clean_demo = "ok" in r.stdout and "FAIL" not in r.stdout
        ran.append("clean tree: go test ./%s with demo -> %s" % (ddir, "pass" if clean_demo else "FAIL: " + r.stdout[-300:]))
        r = sh("git apply %s" % patch, cwd=wt)
        if r.returncode != 0:
            print(prop, n, "patch does not apply (repo moved on?):", r.stderr[:300]); ok = False
        else:
            r = sh("go test -vet=off -count=1 ./%s 2>&1 | tail -8" % ddir, cwd=wt); patched_demo_fails = "FAIL" in r.stdout
            ran.append("patched: demo -> %s" % ("fails" if patched_demo_fails else "PASSES"))
            os.remove(target)
            r = sh("go build ./... && go test -vet=off -count=1 ./... 2>&1 | grep -v 'no test files'", cwd=wt)
            suite = r.returncode == 0 and "FAIL" not in r.stdout
            ran.append("patched: go build ./... && go test ./... -> %s" % ("pass" if suite else "FAIL"))
            ok = clean_demo and patched_demo_fails and suite
    finally:
        sh("git -C /repo worktree remove --force %s" % wt); shutil.rmtree(wt, ignore_errors=True)
    print("%s-%d verified=%s | %s" % (prop, n + offset, ok, " | ".join(ran)))
    if not ok:
        continue
    d = os.path.join(V, "seeded", "%s-%d" % (prop, n + offset))
    os.makedirs(d, exist_ok=True)
    shutil.copy(patch, os.path.join(d, "patch.diff"))
    shutil.copy(demo, os.path.join(d, "demo_test.go"))
    notes = os.path.join(src, "notes%d.md" % n)
    if os.path.exists(notes):
        shutil.copy(notes, os.path.join(d, "notes.md"))
    meta = {"property": prop, "source": "independent sub-agent given only the property text and a scratch worktree",
            "needs": open(notes).read()[:1500] if os.path.exists(notes) else "", "verified": ran}
    r = subprocess.run([os.path.join(V, "lib", "mutate.py"), d] + checks, capture_output=True, text=True)
    print(r.stdout[-1500:])
    try:
        meta["checks_run"] = json.load(open(os.path.join(d, "last_result.json")))
        os.remove(os.path.join(d, "last_result.json"))
    except Exception:
        pass
    json.dump(meta, open(os.path.join(d, "meta.json"), "w"), indent=1)
