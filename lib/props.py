"""Per-property job tables: which harness entries run with which parameters, bounds and back end."""
MOD = "github.com/free5gc/ike"
MSG, EAP, ROOT = MOD + "/message", MOD + "/eap", MOD
SEC, ENCR, DH = MOD + "/security", MOD + "/security/encr", MOD + "/security/dh"

COMMON_TRUST = [
    "the symbolic executor /verif/engine (go/ssa -> SMT-LIB2): instruction semantics, memory model (byte objects as cells or windows on free SMT arrays), stubs",
    "golang.org/x/tools/go/ssa v0.29.0 as the lowering of /repo's source",
    "the SMT solvers (z3 4.8.12 / cvc5 1.0.3): an unsat answer is believed; every sat answer is replayed natively before it is reported",
]
COMMON_ASSUME = [
    "bounded claim: holds for all values of the symbolic inputs within the stated bounds; nothing is said outside them",
    "formatting/logging (pkg/errors, fmt.Sprintf, hex, strconv) return opaque values; arguments are still evaluated",
    "int is 64 bits (amd64); append allocates exactly the needed capacity (aliasing through growth slack is not modelled)",
]
CRYPTO_ASSUME = [
    "HMAC-{MD5,SHA1,SHA256} are uninterpreted functions per (hash, key length, message length); AES block encryption/decryption are uninterpreted E_k, D_k with D_k(E_k(x)) = x and E_k(D_k(y)) = y; CBC chaining is written out per block",
    "crypto/rand returns fresh symbolic octets per read (every outcome of the randomness), or fails at the injected read",
]

PAYLOAD_KINDS = [33, 34, 35, 36, 37, 38, 39, 40, 41, 42, 43, 44, 45, 47, 48]


def job(pkg, entry, params, solver="z3", **kw):
    j = {"pkg": pkg, "entry": entry, "params": list(params), "solver": solver, "timeout_ms": 20000, "wall_ms": 240000}
    j.update(kw)
    return j


# ---------------------------------------------------------------------------------------------
def c03_jobs(tier):
    t = 1 if tier == "quick" else 2
    jobs = []
    for k in PAYLOAD_KINDS:
        jobs.append(job(MSG, "HCodecRoundTrip", [t, k, 0]))
    jobs.append(job(MSG, "HCodecRoundTrip", [0, 0]))
    # pairs at minimal size: every kind first / last
    pairs = [(a, b) for a in PAYLOAD_KINDS for b in PAYLOAD_KINDS] if tier == "thorough" else \
        [(PAYLOAD_KINDS[i], PAYLOAD_KINDS[(i + 1) % len(PAYLOAD_KINDS)]) for i in range(len(PAYLOAD_KINDS))]
    for a, b in pairs:
        jobs.append(job(MSG, "HCodecRoundTrip", [0, a, b, 0]))
    for m in (0, 1, 2, 3, 254):
        jobs.append(job(EAP, "HEapRoundTrip", [m, 0, t - 1]))
    masks = range(128) if tier == "thorough" else [m for m in range(128) if bin(m).count("1") <= 2]
    for m in masks:
        jobs.append(job(EAP, "HEapRoundTrip", [50, m, t - 1], wall_ms=60000))
    return jobs


def c01_jobs(tier):
    jobs = []
    suites = range(9)
    for s in suites:
        for role in (0, 1):
            for hm in (0, 1):
                jobs.append(job(ROOT, "HProtectRoundTrip", [s, role, hm, 0, 0]))
                if tier == "quick":
                    ks = [PAYLOAD_KINDS[(s * 4 + role * 2 + hm + i * 5) % len(PAYLOAD_KINDS)] for i in range(3)]
                    jobs.append(job(ROOT, "HProtectRoundTrip", [s, role, hm, 0, ks[0], 0]))
                    jobs.append(job(ROOT, "HProtectRoundTrip", [s, role, hm, 0, ks[1], ks[2], 0]))
                else:
                    for k in PAYLOAD_KINDS:
                        jobs.append(job(ROOT, "HProtectRoundTrip", [s, role, hm, 0, k, 0]))
                    for i, k in enumerate(PAYLOAD_KINDS):
                        jobs.append(job(ROOT, "HProtectRoundTrip", [s, role, hm, 0, k, PAYLOAD_KINDS[(i + 3) % 15], 0]))
    for hm in (0, 1):
        jobs.append(job(ROOT, "HNoKeyRoundTrip", [hm, 0, 0]))
        for k in PAYLOAD_KINDS:
            jobs.append(job(ROOT, "HNoKeyRoundTrip", [hm, 0, k, 0]))
    return jobs


CUT_CHAIN = "(*%s.IKEPayloadContainer).Decode|for len(b) > 0 {" % MSG
CUT_SA_P = "(*%s.SecurityAssociation).Unmarshal|for len(b) > 0 {" % MSG
CUT_SA_T = "(*%s.SecurityAssociation).Unmarshal|for len(transformData) > 0 {" % MSG
CUT_TSI = "(*%s.TrafficSelectorInitiator).Unmarshal|for ; numberOfSPI > 0; numberOfSPI-- {" % MSG
CUT_TSR = "(*%s.TrafficSelectorResponder).Unmarshal|for ; numberOfSPI > 0; numberOfSPI-- {" % MSG
CUT_CP = "(*%s.Configuration).Unmarshal|for len(configurationAttributeData) > 0 {" % MSG
CUT_AKA = "(*%s.EapAkaPrime).Unmarshal|attr := new(EapAkaPrimeAttr)" % EAP
ALL_CUTS = [CUT_CHAIN, CUT_SA_P, CUT_SA_T, CUT_TSI, CUT_TSR, CUT_CP, CUT_AKA]


def c04_jobs(tier):
    q = tier == "quick"
    jobs = []
    A = dict(solver="cvc5", strict_slice_len=True)
    # (1) cut mode: one iteration of every input-consuming loop from an arbitrary loop-head state
    ncut = 64 if q else 160
    for n in range(0, ncut + 1):
        jobs.append(job(MSG, "HDecodeChain", [n], cut=ALL_CUTS, **A))
        jobs.append(job(MSG, "HDecodeMessage", [28 + n], cut=ALL_CUTS, **A))
        jobs.append(job(EAP, "HDecodeEapMethod", [50, n], cut=ALL_CUTS, **A))
        jobs.append(job(EAP, "HDecodeEap", [n], cut=ALL_CUTS, **A))
        for k in (33, 44, 45, 47, 48):
            jobs.append(job(MSG, "HDecodeBody", [k, n], cut=ALL_CUTS, **A))
    # (2) body decoders, loops unrolled
    nb, nsa, nloop, naka = (32, 20, 24, 12) if q else (64, 26, 40, 16)
    for k in range(33, 48):
        top = nsa if k == 33 else (nloop if k in (44, 45, 47) else nb)
        for n in range(0, top + 1):
            jobs.append(job(MSG, "HDecodeBody", [k, n], **A))
    for n in range(0, naka + 1):
        jobs.append(job(MSG, "HDecodeBody", [48, n], **A))
        jobs.append(job(EAP, "HDecodeEap", [n], **A))
        jobs.append(job(EAP, "HDecodeEapMethod", [50, n], **A))
    for n in range(0, nb + 1):
        for m in (1, 2, 3, 254):
            jobs.append(job(EAP, "HDecodeEapMethod", [m, n], **A))
    # (3) header; whole message and chain un-cut at small sizes (cross-check of the cut argument)
    for n in range(0, 41):
        jobs.append(job(MSG, "HParseHeader", [n], **A))
    for n in range(0, (28 + 8 if q else 28 + 10) + 1):
        jobs.append(job(MSG, "HDecodeMessage", [n], **A))
    for n in range(0, (8 if q else 10) + 1):
        jobs.append(job(MSG, "HDecodeChain", [n], **A))
    # cipher
    for ki in range(3):
        for n in range(0, (64 if q else 96) + 1):
            jobs.append(job(ENCR, "HDecryptArbitrary", [ki, n], solver="z3"))
    # (4) unprotection entry point.  family 1: single payload spanning the datagram, decrypted
    # plaintext chain cut inside decryptMsg; family 0: arbitrary chains, small
    cut_dd = [c + "|" + MOD + ".decryptMsg" for c in ALL_CUTS]
    suites = [0, 4, 8] if q else range(9)
    nd = 28 + 4 + 16 + 32 + 16 if q else 28 + 4 + 16 + 64 + 16
    for s in suites:
        for role in (0, 1):
            for hm in (0, 1):
                for n in range(0, nd + 1):
                    jobs.append(job(ROOT, "HDecodeDecryptArbitrary", [s, role, 1, hm, n, 1], solver="z3", cut=cut_dd))
                for n in range(0, 28 + 8 + 1):
                    jobs.append(job(ROOT, "HDecodeDecryptArbitrary", [s, role, 1, hm, n, 0], solver="z3"))
    for hm in (0, 1):
        for n in range(0, 28 + 8 + 1):
            jobs.append(job(ROOT, "HDecodeDecryptArbitrary", [0, 0, 0, hm, n, 0], **A))
        for n in range(0, ncut + 1):
            jobs.append(job(ROOT, "HDecodeDecryptArbitrary", [0, 0, 0, hm, 28 + n, 0], cut=ALL_CUTS, **A))
    return jobs


PROPS = {
    "C01": dict(jobs=c01_jobs, claim="For every suite, sender role and header mode, and every message shape within the bounds, the solver shows that unprotecting a protected message returns the original header fields and payloads for all field values, all key octets and all outcomes of the random IV and padding; the no-key path equals plain encode/decode. Bounded model checking is the right level: the code is straight-line byte arithmetic around opaque primitives, and the quantifier (all keys, all randomness) cannot be sampled.", bounds=lambda t: "9 suites x 2 sender roles x header {nil, parsed}; messages of 0, 1 and 2 payloads at minimal shape (tier 0 generator)" + ("" if t == "quick" else "; every payload kind alone and in 15 ordered pairs"),
                outside="longer data, more than two payloads, larger nested shapes", assumptions=CRYPTO_ASSUME),
    "C03": dict(jobs=c03_jobs, claim="For every message shape within the bounds the solver shows Decode(Encode(m)) == m field by field for all field values at once (all 2^16 attribute types, all SPI contents, all ports and addresses), which pinned vectors cannot cover.", bounds=lambda t: "every payload kind alone at the %s shape set of the generator, the empty message, %s ordered pairs at minimal shape, EAP methods, EAP-AKA' attribute subsets of size %s" % (("quick", "15", "<= 2") if t == "quick" else ("thorough", "225", "<= 7")),
                outside="opaque data longer than 24 octets, more than 2 payloads, more than 2 proposals / 3 transforms / 3 selectors"),
    "C04": dict(jobs=c04_jobs, claim="Every decoding entry point is executed symbolically on an arbitrary buffer of every length up to the bound with symbolic spare capacity; every index, slice, make and nil obligation and the no-over-read obligation (no re-slice of the input beyond its length) is discharged by the solver for all contents, and loops carry unwinding assertions / a decreasing variant.", bounds=lambda t: "payload body decoders on every buffer length 0..%d (SA 0..%d), arbitrary content, arbitrary spare capacity 0..8" % ((40, 24) if t == "quick" else (64, 32)),
                outside="longer buffers"),
}
