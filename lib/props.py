"""Per-property job tables: which harness entries run with which parameters, bounds and back end."""
MOD = "github.com/free5gc/ike"
MSG, EAP, ROOT = MOD + "/message", MOD + "/eap", MOD
SEC, ENCR, DH = MOD + "/security", MOD + "/security/encr", MOD + "/security/dh"

COMMON_TRUST = [
    "the symbolic executor /verif/engine (go/ssa -> SMT-LIB2): instruction semantics, memory model (byte objects as cells or windows on free SMT arrays), stubs",
    "golang.org/x/tools/go/ssa v0.29.0 as the lowering of /repo's source",
    "the SMT solvers (z3 4.8.12 / cvc5 1.0.3): an unsat answer is believed; every sat answer is replayed natively before it is reported",
]
COMMON_ASSUME = [
    "bounded claim: holds for all values of the symbolic inputs within the stated bounds; nothing is said outside them",
    "formatting/logging (pkg/errors, fmt.Sprintf, hex, strconv) return opaque values; arguments are still evaluated",
    "int is 64 bits (amd64); append allocates exactly the needed capacity (aliasing through growth slack is not modelled)",
]
CRYPTO_ASSUME = [
    "HMAC-{MD5,SHA1,SHA256} are uninterpreted functions per (hash, key length, message length); AES block encryption/decryption are uninterpreted E_k, D_k with D_k(E_k(x)) = x and E_k(D_k(y)) = y; CBC chaining is written out per block",
    "crypto/rand returns fresh symbolic octets per read (every outcome of the randomness), or fails at the injected read",
]

PAYLOAD_KINDS = [33, 34, 35, 36, 37, 38, 39, 40, 41, 42, 43, 44, 45, 47, 48]


def job(pkg, entry, params, solver="z3", **kw):
    j = {"pkg": pkg, "entry": entry, "params": list(params), "solver": solver, "timeout_ms": 20000, "wall_ms": 240000}
    j.update(kw)
    return j


# ---------------------------------------------------------------------------------------------
def c03_jobs(tier):
    t = 1 if tier == "quick" else 2
    jobs = []
    for k in PAYLOAD_KINDS:
        jobs.append(job(MSG, "HCodecRoundTrip", [t, k, 0]))
    jobs.append(job(MSG, "HCodecRoundTrip", [0, 0]))
    # pairs at minimal size: every kind first / last
    pairs = [(a, b) for a in PAYLOAD_KINDS for b in PAYLOAD_KINDS] if tier == "thorough" else \
        [(PAYLOAD_KINDS[i], PAYLOAD_KINDS[(i + 1) % len(PAYLOAD_KINDS)]) for i in range(len(PAYLOAD_KINDS))]
    for a, b in pairs:
        jobs.append(job(MSG, "HCodecRoundTrip", [0, a, b, 0]))
    for m in (0, 1, 2, 3, 254):
        jobs.append(job(EAP, "HEapRoundTrip", [m, 0, t - 1]))
    masks = range(128) if tier == "thorough" else [m for m in range(128) if bin(m).count("1") <= 2]
    for m in masks:
        jobs.append(job(EAP, "HEapRoundTrip", [50, m, t - 1], wall_ms=60000))
    return jobs


def c01_jobs(tier):
    jobs = []
    suites = range(9)
    for s in suites:
        for role in (0, 1):
            for hm in (0, 1):
                jobs.append(job(ROOT, "HProtectRoundTrip", [s, role, hm, 0, 0]))
                if tier == "quick":
                    ks = [PAYLOAD_KINDS[(s * 4 + role * 2 + hm + i * 5) % len(PAYLOAD_KINDS)] for i in range(3)]
                    jobs.append(job(ROOT, "HProtectRoundTrip", [s, role, hm, 0, ks[0], 0]))
                    jobs.append(job(ROOT, "HProtectRoundTrip", [s, role, hm, 0, ks[1], ks[2], 0]))
                else:
                    for k in PAYLOAD_KINDS:
                        jobs.append(job(ROOT, "HProtectRoundTrip", [s, role, hm, 0, k, 0]))
                    for i, k in enumerate(PAYLOAD_KINDS):
                        jobs.append(job(ROOT, "HProtectRoundTrip", [s, role, hm, 0, k, PAYLOAD_KINDS[(i + 3) % 15], 0]))
    for hm in (0, 1):
        jobs.append(job(ROOT, "HNoKeyRoundTrip", [hm, 0, 0]))
        for k in PAYLOAD_KINDS:
            jobs.append(job(ROOT, "HNoKeyRoundTrip", [hm, 0, k, 0]))
    return jobs


CUT_CHAIN = "(*%s.IKEPayloadContainer).Decode|for len(b) > 0 {" % MSG
CUT_SA_P = "(*%s.SecurityAssociation).Unmarshal|for len(b) > 0 {" % MSG
CUT_SA_T = "(*%s.SecurityAssociation).Unmarshal|for len(transformData) > 0 {" % MSG
CUT_TSI = "(*%s.TrafficSelectorInitiator).Unmarshal|for ; numberOfSPI > 0; numberOfSPI-- {" % MSG
CUT_TSR = "(*%s.TrafficSelectorResponder).Unmarshal|for ; numberOfSPI > 0; numberOfSPI-- {" % MSG
CUT_CP = "(*%s.Configuration).Unmarshal|for len(configurationAttributeData) > 0 {" % MSG
CUT_AKA = "(*%s.EapAkaPrime).Unmarshal|attr := new(EapAkaPrimeAttr)" % EAP
ALL_CUTS = [CUT_CHAIN, CUT_SA_P, CUT_SA_T, CUT_TSI, CUT_TSR, CUT_CP, CUT_AKA]


def c04_jobs(tier):
    q = tier == "quick"
    jobs = []
    A = dict(solver="cvc5", strict_slice_len=True)
    # (1) cut mode: one iteration of every input-consuming loop from an arbitrary loop-head state
    ncut = 64 if q else 160
    for n in range(0, ncut + 1):
        jobs.append(job(MSG, "HDecodeChain", [n], cut=ALL_CUTS, **A))
        jobs.append(job(MSG, "HDecodeMessage", [28 + n], cut=ALL_CUTS, **A))
        jobs.append(job(EAP, "HDecodeEapMethod", [50, n], cut=ALL_CUTS, **A))
        jobs.append(job(EAP, "HDecodeEap", [n], cut=ALL_CUTS, **A))
        for k in (33, 44, 45, 47, 48):
            jobs.append(job(MSG, "HDecodeBody", [k, n], cut=ALL_CUTS, **A))
    # (2) body decoders, loops unrolled
    nb, nsa, nloop, naka = (32, 20, 24, 12) if q else (64, 26, 40, 16)
    for k in range(33, 48):
        top = nsa if k == 33 else (nloop if k in (44, 45, 47) else nb)
        for n in range(0, top + 1):
            jobs.append(job(MSG, "HDecodeBody", [k, n], **A))
    for n in range(0, naka + 1):
        jobs.append(job(MSG, "HDecodeBody", [48, n], **A))
        jobs.append(job(EAP, "HDecodeEap", [n], **A))
        jobs.append(job(EAP, "HDecodeEapMethod", [50, n], **A))
    for n in range(0, nb + 1):
        for m in (1, 2, 3, 254):
            jobs.append(job(EAP, "HDecodeEapMethod", [m, n], **A))
    # (3) header; whole message and chain un-cut at small sizes (cross-check of the cut argument)
    for n in range(0, 41):
        jobs.append(job(MSG, "HParseHeader", [n], **A))
    for n in range(0, (28 + 8 if q else 28 + 10) + 1):
        jobs.append(job(MSG, "HDecodeMessage", [n], **A))
    for n in range(0, (8 if q else 10) + 1):
        jobs.append(job(MSG, "HDecodeChain", [n], **A))
    # cipher
    for ki in range(3):
        for n in range(0, (64 if q else 96) + 1):
            jobs.append(job(ENCR, "HDecryptArbitrary", [ki, n], solver="z3"))
    # (4) unprotection entry point.  family 1: single payload spanning the datagram, decrypted
    # plaintext chain cut inside decryptMsg; family 0: arbitrary chains, small
    cut_dd = [c + "|" + MOD + ".decryptMsg" for c in ALL_CUTS]
    suites = [0, 4, 8] if q else range(9)
    nd = 28 + 4 + 16 + 32 + 16 if q else 28 + 4 + 16 + 64 + 16
    for s in suites:
        for role in (0, 1):
            for hm in (0, 1):
                for n in range(0, nd + 1):
                    jobs.append(job(ROOT, "HDecodeDecryptArbitrary", [s, role, 1, hm, n, 1], solver="z3", cut=cut_dd))
                for n in range(0, 28 + 8 + 1):
                    jobs.append(job(ROOT, "HDecodeDecryptArbitrary", [s, role, 1, hm, n, 0], solver="z3"))
    for hm in (0, 1):
        for n in range(0, 28 + 8 + 1):
            jobs.append(job(ROOT, "HDecodeDecryptArbitrary", [0, 0, 0, hm, n, 0], **A))
        for n in range(0, ncut + 1):
            jobs.append(job(ROOT, "HDecodeDecryptArbitrary", [0, 0, 0, hm, 28 + n, 0], cut=ALL_CUTS, **A))
    return jobs


def c05_jobs(tier):
    t = 1 if tier == "quick" else 2
    jobs = []
    for k in PAYLOAD_KINDS:
        jobs.append(job(MSG, "HStrictParseOfEncode", [t, k, 0]))
        jobs.append(job(MSG, "HRefLemma", [t, k, 0]))
        for perm in ((0, 1, 2) if k == 33 else (0,)):
            jobs.append(job(MSG, "HDecodeLiberal", [t, 1, perm, k, 0]))
            if tier == "thorough":
                jobs.append(job(MSG, "HDecodeLiberal", [t, 0, perm, k, 0]))
    pairs = [(PAYLOAD_KINDS[i], PAYLOAD_KINDS[(i + 2) % 15]) for i in range(15)]
    if tier == "thorough":
        pairs = [(a, b) for a in PAYLOAD_KINDS for b in PAYLOAD_KINDS]
    for a, b in pairs:
        jobs.append(job(MSG, "HStrictParseOfEncode", [0, a, b, 0]))
        jobs.append(job(MSG, "HDecodeLiberal", [0, 1, 1, a, b, 0]))
    jobs.append(job(MSG, "HStrictParseOfEncode", [0, 0]))
    jobs.append(job(MSG, "HDecodeLiberal", [0, 1, 0, 0]))
    for m in (0, 1, 2, 3, 254):
        jobs.append(job(EAP, "HEapRefLemma", [m, 0, t - 1]))
    for m in ([1, 4, 8, 16, 32, 64, 127] if tier == "quick" else range(128)):
        jobs.append(job(EAP, "HEapRefLemma", [50, m, t - 1]))
    return jobs


def c13_jobs(tier):
    jobs = []
    q = tier == "quick"
    L = 8 if q else 64
    bases = [[], [40], [33, 41], [47, 48]] if q else [[]] + [[k] for k in PAYLOAD_KINDS] + [[33, 41], [47, 48], [34, 40, 43]]
    for base in bases:
        for mode in (0, 1, 2):
            if mode == 2 and not base:
                continue
            jobs.append(job(MSG, "HSkipUnsupported", [-1, mode, L] + base + [0]))
    return jobs


def c20_jobs(tier):
    jobs = []
    q = tier == "quick"
    t = 1 if not q else 0
    for k in PAYLOAD_KINDS:
        jobs.append(job(MSG, "HDecodeOwnsData", [1 if k != 33 else t, k, 0]))
        jobs.append(job(MSG, "HEncodePure", [1 if k != 33 else t, k, 0]))
    for i in range(15):
        a, b = PAYLOAD_KINDS[i], PAYLOAD_KINDS[(i + 4) % 15]
        jobs.append(job(MSG, "HDecodeOwnsData", [0, a, b, 0]))
        jobs.append(job(MSG, "HEncodePure", [0, a, b, 0]))
    for n in range(0, (28 + 8 if q else 28 + 10) + 1):
        jobs.append(job(MSG, "HDecodeOwnsDataArbitrary", [n], solver="cvc5"))
    suites = [0, 4, 8] if q else range(9)
    for s in suites:
        for role in (0, 1):
            for i, k in enumerate(PAYLOAD_KINDS):
                if q and (i + s + role) % 3 != 0:
                    continue
                jobs.append(job(ROOT, "HUnprotectOwnsData", [s, role, (i + role) % 2, 0, k, 0]))
                jobs.append(job(ROOT, "HProtectFrame", [s, role, 0, k, 0]))
            jobs.append(job(ROOT, "HProtectFrame", [s, role, 0, 0]))
            jobs.append(job(ROOT, "HProtectFrame", [s, role, 0, 33, 48, 0]))
    return jobs


PROPS = {
    "C05": dict(jobs=c05_jobs, claim="Both directions against an independently written RFC 7296 / RFC 3748 / RFC 4187 codec executed by the same engine: the strict reference parser accepts every library encoding and recovers exactly the encoded fields; the library decodes every datagram of the liberal reference encoder (symbolic reserved bits, critical flags, three transform orders) to the fields it was built from - for all field values of each shape. The reference's own round-trip lemma is discharged too.",
                bounds=lambda t: "generator shapes of tier %s per payload kind, 15 (quick) / 225 (thorough) ordered pairs at minimal shape, transform orders {grouped, reversed, rotated}" % ("1" if t == "quick" else "2"),
                outside="larger shapes; interleavings of more than 3 transforms beyond reverse/rotate",
                trusted=["the reference codec in harness/message/zz_verif_ref.go and harness/eap/zz_verif_ref.go (written from the RFC layouts; its own lemma Parse(Encode(m)) == m is checked)"]),
    "C13": dict(jobs=c13_jobs, claim="For each base message shape and every one or two insertion positions, a solver-decided statement over a symbolic unsupported type code (all of 1..32, 49..255 at once), symbolic flags and body: non-critical => decodes exactly as the base message; critical => error; critical/reserved bits on implemented payloads are ignored.",
                bounds=lambda t: "base messages of 0..2 (quick) / 0..3 (thorough) payloads, one or two insertions at every position, body lengths {0,1,8%s}" % ("" if t == "quick" else ",64"),
                outside="bodies longer than 64 octets (the body is only skipped by length), more than two insertions"),
    "C20": dict(jobs=c20_jobs, claim="Decided on the engine's heap: after Decode / DecodeDecrypt the receive buffer (including spare capacity) is overwritten with fresh symbolic octets and every payload field must still equal its snapshot for all values (an aliased field would read the fresh symbols); Encode leaves all payload fields unchanged, does not reference the returned buffer, and two encodings are identical under the explored map iteration orders; EncodeEncrypt changes only the payload list and header bookkeeping.",
                bounds=lambda t: "every payload kind alone and 15 pairs at generator tier 0/1; arbitrary accepted datagrams up to %d octets; protect/unprotect for %s suites" % ((36, 3) if t == "quick" else (38, 9)),
                outside="larger messages; map iteration orders other than those listed in the evidence for maps of more than 3 entries", assumptions=CRYPTO_ASSUME),

    "C01": dict(jobs=c01_jobs, claim="For every suite, sender role and header mode, and every message shape within the bounds, the solver shows that unprotecting a protected message returns the original header fields and payloads for all field values, all key octets and all outcomes of the random IV and padding; the no-key path equals plain encode/decode. Bounded model checking is the right level: the code is straight-line byte arithmetic around opaque primitives, and the quantifier (all keys, all randomness) cannot be sampled.", bounds=lambda t: "9 suites x 2 sender roles x header {nil, parsed}; messages of 0, 1 and 2 payloads at minimal shape (tier 0 generator)" + ("" if t == "quick" else "; every payload kind alone and in 15 ordered pairs"),
                outside="longer data, more than two payloads, larger nested shapes", assumptions=CRYPTO_ASSUME),
    "C03": dict(jobs=c03_jobs, claim="For every message shape within the bounds the solver shows Decode(Encode(m)) == m field by field for all field values at once (all 2^16 attribute types, all SPI contents, all ports and addresses), which pinned vectors cannot cover.", bounds=lambda t: "every payload kind alone at the %s shape set of the generator, the empty message, %s ordered pairs at minimal shape, EAP methods, EAP-AKA' attribute subsets of size %s" % (("quick", "15", "<= 2") if t == "quick" else ("thorough", "225", "<= 7")),
                outside="opaque data longer than 24 octets, more than 2 payloads, more than 2 proposals / 3 transforms / 3 selectors"),
    "C04": dict(jobs=c04_jobs, claim="Every decoding entry point is executed symbolically on an arbitrary buffer of every length up to the bound with symbolic spare capacity; every index, slice, make and nil obligation and the no-over-read obligation (no re-slice of the input beyond its length) is discharged by the solver for all contents, and loops carry unwinding assertions / a decreasing variant.", bounds=lambda t: "payload body decoders on every buffer length 0..%d (SA 0..%d), arbitrary content, arbitrary spare capacity 0..8" % ((40, 24) if t == "quick" else (64, 32)),
                outside="longer buffers"),
}
