"""Per-property job tables: which harness entries run with which parameters, bounds and back end."""
MOD = "github.com/free5gc/ike"
MSG, EAP, ROOT = MOD + "/message", MOD + "/eap", MOD
SEC, ENCR, DH = MOD + "/security", MOD + "/security/encr", MOD + "/security/dh"

COMMON_TRUST = [
    "the symbolic executor /verif/engine (go/ssa -> SMT-LIB2): instruction semantics, memory model (byte objects as cells or windows on free SMT arrays), stubs",
    "golang.org/x/tools/go/ssa v0.29.0 as the lowering of /repo's source",
    "the SMT solvers (z3 4.8.12 / cvc5 1.0.3): an unsat answer is believed; every sat answer is replayed natively before it is reported",
]
COMMON_ASSUME = [
    "bounded claim: holds for all values of the symbolic inputs within the stated bounds; nothing is said outside them",
    "formatting/logging (pkg/errors, fmt.Sprintf, hex, strconv) return opaque values; arguments are still evaluated",
    "int is 64 bits (amd64); append allocates exactly the needed capacity (aliasing through growth slack is not modelled)",
]
CRYPTO_ASSUME = [
    "HMAC-{MD5,SHA1,SHA256} are uninterpreted functions per (hash, key length, message length); AES block encryption/decryption are uninterpreted E_k, D_k with D_k(E_k(x)) = x and E_k(D_k(y)) = y; CBC chaining is written out per block",
    "crypto/rand returns fresh symbolic octets per read (every outcome of the randomness), or fails at the injected read",
]

UA_RAND = [SEC + ".GenerateRandomNumber"]
PAYLOAD_KINDS = [33, 34, 35, 36, 37, 38, 39, 40, 41, 42, 43, 44, 45, 47, 48]


def job(pkg, entry, params, solver="z3-new", **kw):
    j = {"pkg": pkg, "entry": entry, "params": list(params), "solver": solver, "timeout_ms": 20000, "wall_ms": 240000}
    j.update(kw)
    return j


# ---------------------------------------------------------------------------------------------
def sa_tiers(t, kind):
    """the thorough SA shape space is split over five jobs (first transform type fixed per job)"""
    if t >= 2 and kind == 33:
        return [t + 10 * k for k in range(1, 6)]
    return [t]


def c03_jobs(tier):
    t = 1 if tier == "quick" else 2
    jobs = []
    # one large data field per payload kind: 32768 +- and the largest that fits (fixed part per kind), one beyond
    fixed = {34: 4, 35: 4, 36: 4, 37: 1, 38: 1, 39: 4, 40: 0, 41: 8, 43: 0, 47: 8}
    for i, (k, f) in enumerate(sorted(fixed.items())):
        top = 65535 - 4 - f
        sizes = [(32764 - f, 40000)[i % 2], top, top + 1] if tier == "quick" else [32763 - f, 32764 - f, 40000, top - 1, top, top + 1, 70000]
        for n in sizes:
            jobs.append(job(MSG, "HBigCodec", [k, n], wall_ms=600000))
    for k in PAYLOAD_KINDS:
        for tt in sa_tiers(t, k):
            jobs.append(job(MSG, "HCodecRoundTrip", [tt, k, 0], wall_ms=1200000))
    jobs.append(job(MSG, "HCodecRoundTrip", [0, 0]))
    if tier == "thorough":
        for k in (44, 45):
            jobs.append(job(MSG, "HCodecRoundTrip", [7, k, 0], wall_ms=1200000))  # 255 selectors
    # pairs at minimal size: every kind first / last
    pairs = [(a, b) for a in PAYLOAD_KINDS for b in PAYLOAD_KINDS] if tier == "thorough" else \
        [(PAYLOAD_KINDS[i], PAYLOAD_KINDS[(i + 1) % len(PAYLOAD_KINDS)]) for i in range(len(PAYLOAD_KINDS))]
    for a, b in pairs:
        jobs.append(job(MSG, "HCodecRoundTrip", [0, a, b, 0]))
    if tier == "quick":
        for k in (33, 41, 44, 47, 48):
            jobs.append(job(MSG, "HCodecRoundTrip", [0, k, k, 0]))  # two payloads of the same kind
    for tr in ([40, 41, 43], [33, 34, 40], [35, 39, 48]):
        jobs.append(job(MSG, "HCodecRoundTrip", [-1 if tier == "quick" else 0] + tr + [0]))
    for m in (0, 1, 2, 3, 254):
        jobs.append(job(EAP, "HEapRoundTrip", [m, 0, t - 1]))
    masks = range(128) if tier == "thorough" else [m for m in range(128) if bin(m).count("1") <= 2]
    for m in masks:
        jobs.append(job(EAP, "HEapRoundTrip", [50, m, t - 1], wall_ms=60000))
    return jobs


def c01_jobs(tier):
    jobs = []
    suites = range(9)
    for s in suites:
        for role in (0, 1):
            for hm in (0, 1):
                jobs.append(job(ROOT, "HProtectRoundTrip", [s, role, hm, 0, 0]))
                jobs.append(job(ROOT, "HProtectRoundTrip", [s, role, hm + 2 + 4 * ((s + role) % 2), 0, 40, 0]))
                jobs.append(job(ROOT, "HProtectRoundTrip", [s, role, hm + 4, 0, PAYLOAD_KINDS[(s + 3 * role + hm) % 15], 0]))
                if tier == "quick":
                    ks = [PAYLOAD_KINDS[(s * 4 + role * 2 + hm + i * 5) % len(PAYLOAD_KINDS)] for i in range(3)]
                    jobs.append(job(ROOT, "HProtectRoundTrip", [s, role, hm, 0, ks[0], 0]))
                    jobs.append(job(ROOT, "HProtectRoundTrip", [s, role, hm, 0, ks[1], ks[2], 0]))
                else:
                    for k in PAYLOAD_KINDS:
                        jobs.append(job(ROOT, "HProtectRoundTrip", [s, role, hm, 0, k, 0]))
                    for i, k in enumerate(PAYLOAD_KINDS):
                        jobs.append(job(ROOT, "HProtectRoundTrip", [s, role, hm, 0, k, PAYLOAD_KINDS[(i + 3) % 15], 0]))
    # two payloads of the same kind next to each other
    for i, k in enumerate(PAYLOAD_KINDS):
        if tier == "quick" and k not in (41, 40, 43, 37, 47):
            continue
        jobs.append(job(ROOT, "HProtectRoundTrip", [i % 9, i % 2, (i // 2) % 2, 0, k, k, 0], wall_ms=600000))
    # payloads with several elements (selectors, proposals, attributes): generator tier 1
    for i, k in enumerate((44, 45, 47, 48, 42) if tier == "quick" else (44, 45, 47, 48, 42, 33)):
        for s in ((i % 9,) if tier == "quick" else (i % 9, (i + 4) % 9)):
            jobs.append(job(ROOT, "HProtectRoundTrip", [s, i % 2, (i // 2) % 2, 1, k, 0], wall_ms=600000))
    # the upper end of the domain: one payload of up to 65535 octets (plain path; protected at 40000)
    for i, total in enumerate((32767, 32768, 40000, 65535, 65536, 70000)):
        jobs.append(job(ROOT, "HBigPayload", [-1, i % 2, i % 2, total], wall_ms=600000))
    jobs.append(job(ROOT, "HBigPayload", [4, 1, 0, 40000], wall_ms=600000))
    for hm in (0, 1):
        jobs.append(job(ROOT, "HNoKeyRoundTrip", [hm, 0, 0]))
        for k in PAYLOAD_KINDS:
            jobs.append(job(ROOT, "HNoKeyRoundTrip", [hm, 0, k, 0]))
    return jobs


CUT_CHAIN = "(*%s.IKEPayloadContainer).Decode|for len(b) > 0 {" % MSG
CUT_SA_P = "(*%s.SecurityAssociation).Unmarshal|for len(b) > 0 {" % MSG
CUT_SA_T = "(*%s.SecurityAssociation).Unmarshal|for len(transformData) > 0 {" % MSG
CUT_TSI = "(*%s.TrafficSelectorInitiator).Unmarshal|for ; numberOfSPI > 0; numberOfSPI-- {" % MSG
CUT_TSR = "(*%s.TrafficSelectorResponder).Unmarshal|for ; numberOfSPI > 0; numberOfSPI-- {" % MSG
CUT_CP = "(*%s.Configuration).Unmarshal|for len(configurationAttributeData) > 0 {" % MSG
CUT_AKA = "(*%s.EapAkaPrime).Unmarshal|attr := new(EapAkaPrimeAttr)" % EAP
ALL_CUTS = [CUT_CHAIN, CUT_SA_P, CUT_SA_T, CUT_TSI, CUT_TSR, CUT_CP, CUT_AKA]


def c04_jobs(tier):
    q = tier == "quick"
    jobs = []
    A = dict(solver="cvc5", strict_slice_len=True)
    # (1) cut mode: one iteration of every input-consuming loop from an arbitrary loop-head state
    ncut = 64 if q else 160
    for n in range(0, ncut + 1):
        jobs.append(job(MSG, "HDecodeChain", [n], cut=ALL_CUTS, **A))
        jobs.append(job(MSG, "HDecodeMessage", [28 + n], cut=ALL_CUTS, **A))
        jobs.append(job(EAP, "HDecodeEapMethod", [50, n], cut=ALL_CUTS, **A))
        jobs.append(job(EAP, "HDecodeEap", [n], cut=ALL_CUTS, **A))
        for k in (33, 44, 45, 47, 48):
            jobs.append(job(MSG, "HDecodeBody", [k, n], cut=ALL_CUTS, **A))
    # (2) body decoders, loops unrolled
    nb, nsa, nts, ncp, naka = (32, 20, 100, 40, 12) if q else (64, 26, 200, 64, 16)
    for k in range(33, 48):
        top = nsa if k == 33 else (nts if k in (44, 45) else (ncp if k == 47 else nb))
        for n in range(0, top + 1):
            jobs.append(job(MSG, "HDecodeBody", [k, n], **A))
    for n in range(0, naka + 1):
        jobs.append(job(MSG, "HDecodeBody", [48, n], **A))
        jobs.append(job(EAP, "HDecodeEap", [n], **A))
        jobs.append(job(EAP, "HDecodeEapMethod", [50, n], **A))
    for n in range(0, nb + 1):
        for m in (1, 2, 3, 254):
            jobs.append(job(EAP, "HDecodeEapMethod", [m, n], **A))
    # (3) header; whole message and chain un-cut at small sizes (cross-check of the cut argument)
    for n in range(0, 41):
        jobs.append(job(MSG, "HParseHeader", [n], **A))
    for n in range(0, (28 + 8 if q else 28 + 10) + 1):
        jobs.append(job(MSG, "HDecodeMessage", [n], **A))
    for n in range(0, (8 if q else 10) + 1):
        jobs.append(job(MSG, "HDecodeChain", [n], **A))
    # cipher
    for ki in range(3):
        for n in range(0, (64 if q else 96) + 1):
            jobs.append(job(ENCR, "HDecryptArbitrary", [ki, n], solver="z3-new"))
        for n in ((1568,) if q else (1040, 1568, 4112)):
            jobs.append(job(ENCR, "HDecryptArbitrary", [ki, n], solver="z3-new", wall_ms=600000))
    # (4) unprotection entry point.  family 1: single payload spanning the datagram, decrypted
    # plaintext chain cut inside decryptMsg; family 0: arbitrary chains, small
    cut_dd = [c + "|" + MOD + ".decryptMsg" for c in ALL_CUTS]
    suites = [0, 4, 8] if q else range(9)
    nd = 28 + 4 + 16 + 32 + 16 if q else 28 + 4 + 16 + 64 + 16
    for s in suites:
        for role in (0, 1):
            for hm in (0, 1):
                for n in range(0, nd + 1):
                    jobs.append(job(ROOT, "HDecodeDecryptArbitrary", [s, role, 1, hm, n, 1], solver="z3-new", cut=cut_dd, wall_ms=900000))
                for n in range(0, 28 + 8 + 1):
                    jobs.append(job(ROOT, "HDecodeDecryptArbitrary", [s, role, 1, hm, n, 0], solver="z3-new"))
                # family 2: a skipped payload in front of the Encrypted payload (body 0 .. 16+16+icv)
                for l1 in (4, 13):
                    for body in range(0, 16 + 32 + 16 + 1):
                        if q and (body + s + role + hm + l1) % 4 != 0 and body > 20:
                            continue
                        jobs.append(job(ROOT, "HDecodeDecryptArbitrary", [s, role, 1, hm, 28 + l1 + 4 + body, 2, l1], solver="z3-new", cut=cut_dd, wall_ms=900000))
    # genuine peer messages whose encrypted chain holds unsupported payloads (the code behind the inner
    # decoding loop is not reached by the cut jobs above)
    for i, s_ in enumerate((2, 7) if q else range(9)):
        for base in ([], [40]):
            jobs.append(job(ROOT, "HSkipInsideProtected", [s_, i % 2, (i + len(base)) % 2, 0] + base + [0]))
            jobs.append(job(ROOT, "HSkipInsideProtected", [s_, (i + 1) % 2, i % 2, 1] + base + [0]))
    for hm in (0, 1):
        for n in range(0, 28 + 8 + 1):
            jobs.append(job(ROOT, "HDecodeDecryptArbitrary", [0, 0, 0, hm, n, 0], **A))
        for n in range(0, ncut + 1):
            jobs.append(job(ROOT, "HDecodeDecryptArbitrary", [0, 0, 0, hm, 28 + n, 0], cut=ALL_CUTS, **A))
    return jobs


def c05_jobs(tier):
    t = 1 if tier == "quick" else 2
    jobs = []
    for k in PAYLOAD_KINDS:
        for tt in sa_tiers(t, k):
            jobs.append(job(MSG, "HStrictParseOfEncode", [tt, k, 0], wall_ms=1200000))
            jobs.append(job(MSG, "HRefLemma", [tt, k, 0], wall_ms=1200000))
            for perm in ((0, 1, 2) if k == 33 else (0,)):
                jobs.append(job(MSG, "HDecodeLiberal", [tt, 1, perm, k, 0], wall_ms=1200000))
                if tier == "thorough":
                    jobs.append(job(MSG, "HDecodeLiberal", [tt, 0, perm, k, 0], wall_ms=1200000))
    pairs = [(PAYLOAD_KINDS[i], PAYLOAD_KINDS[(i + 2) % 15]) for i in range(15)]
    if tier == "thorough":
        pairs = [(a, b) for a in PAYLOAD_KINDS for b in PAYLOAD_KINDS]
    for a, b in pairs:
        jobs.append(job(MSG, "HStrictParseOfEncode", [0, a, b, 0]))
        jobs.append(job(MSG, "HDecodeLiberal", [0, 1, 1, a, b, 0]))
    jobs.append(job(MSG, "HStrictParseOfEncode", [0, 0]))
    jobs.append(job(MSG, "HDecodeLiberal", [0, 1, 0, 0]))
    # chains of several hundred / several thousand octets (three payloads with 600 or 2000 data octets each)
    for big in ((1600,) if tier == "quick" else (1600, 3000)):
        jobs.append(job(MSG, "HStrictParseOfEncode", [big, 40, 37, 41, 0], wall_ms=600000))
        jobs.append(job(MSG, "HDecodeLiberal", [big, 1, 0, 34, 43, 39, 0], wall_ms=600000))
    for m in (0, 1, 2, 3, 254):
        jobs.append(job(EAP, "HEapRefLemma", [m, 0, t - 1]))
    for m in ([1, 4, 8, 16, 32, 64, 127] if tier == "quick" else range(128)):
        jobs.append(job(EAP, "HEapRefLemma", [50, m, t - 1]))
    return jobs


def c13_jobs(tier):
    jobs = []
    q = tier == "quick"
    L = 8 if q else 1024
    bases = [[], [40], [33, 41], [47, 48], [40, 46]] if q else [[40, 46], [46, 43]] + [[]] + [[k] for k in PAYLOAD_KINDS] + [[33, 41], [47, 48], [34, 40, 43]]
    for base in bases:
        for mode in (0, 1, 2):
            if mode == 2 and not base:
                continue
            jobs.append(job(MSG, "HSkipUnsupported", [-1, mode, L] + base + [0]))
    # inside the encrypted chain of a peer's message
    for i, s_ in enumerate((0, 4, 8) if q else range(9)):
        for base in ([], [40], [41, 43]):
            jobs.append(job(ROOT, "HSkipInsideProtected", [s_, i % 2, (i + len(base)) % 2, 0] + base + [0]))
        jobs.append(job(ROOT, "HSkipInsideProtected", [s_, (i + 1) % 2, i % 2, 1, 40, 0]))
    # long messages: 1024-octet insertions into a message that already carries 1000 / 3000 data octets
    for big in ((2000,) if q else (2000, 4000)):
        for mode in (0, 1):
            jobs.append(job(MSG, "HSkipUnsupported", [big, mode, 1024, 37, 0], wall_ms=600000))
    # in front of the Encrypted payload of a protected message (through DecodeDecrypt)
    for s in ([0, 4, 8] if q else range(9)):
        for role in (0, 1):
            for cnt in (1, 2):
                base = [[40], [33, 41]][(s + role + cnt) % 2]
                jobs.append(job(ROOT, "HSkipBeforeProtected", [s, role, (s + role + cnt) % 2, cnt, 8 if q else 64] + base + [0]))
    return jobs


def c20_jobs(tier):
    jobs = []
    q = tier == "quick"
    t = 1 if not q else 0
    for k in PAYLOAD_KINDS:
        jobs.append(job(MSG, "HDecodeOwnsData", [1 if k != 33 else t, k, 0]))
        jobs.append(job(MSG, "HEncodePure", [1 if k != 33 else t, k, 0]))
    for i in range(15):
        a, b = PAYLOAD_KINDS[i], PAYLOAD_KINDS[(i + 4) % 15]
        jobs.append(job(MSG, "HDecodeOwnsData", [0, a, b, 0]))
        jobs.append(job(MSG, "HEncodePure", [0, a, b, 0]))
    for n in range(0, (28 + 8 if q else 28 + 10) + 1):
        jobs.append(job(MSG, "HDecodeOwnsDataArbitrary", [n], solver="cvc5"))
    suites = [0, 4, 8] if q else range(9)
    for s in suites:
        for role in (0, 1):
            for i, k in enumerate(PAYLOAD_KINDS):
                if q and (i + s + role) % 3 != 0:
                    continue
                jobs.append(job(ROOT, "HUnprotectOwnsData", [s, role, (i + role) % 2, 0, k, 0]))
                jobs.append(job(ROOT, "HProtectFrame", [s, role, 0, k, 0]))
            jobs.append(job(ROOT, "HProtectFrame", [s, role, 0, 0]))
            jobs.append(job(ROOT, "HProtectFrame", [s, role, 0, 33, 48, 0]))
    for v in (0, 1):
        jobs.append(job(MSG, "HEncodeSharedContainers", [v]))
    # several hundred octets per value (allocation strategies that change with the size)
    for k in (47, 37, 41, 43):
        jobs.append(job(MSG, "HDecodeOwnsData", [1300, k, 0], wall_ms=600000))
    for i, k in enumerate(PAYLOAD_KINDS):
        for entry in ((1 + i % 3,) if q else (1, 2, 3)):
            jobs.append(job(MSG, "HDecodeOwnsDataEntryPoints", [entry, 0, k, 0]))
    jobs.append(job(MSG, "HEncodePure", [1600, 40, 37, 0], wall_ms=600000))
    for meth, mask in ((1, 0), (2, 0), (3, 0), (254, 0), (50, 0), (50, 1 | 4 | 32)):
        jobs.append(job(EAP, "HEapEncodePureAnyCode", [meth, mask]))
    for meth, mask in ((1, 0), (2, 0), (3, 0), (254, 0), (50, 1 | 2), (50, 4 | 8), (50, 16 | 32), (50, 64), (50, 64 | 4)):
        jobs.append(job(EAP, "HEapDecodeOwnsData", [meth, mask]))
    # a decoded EAP-AKA' packet extended through the API: same octets under every map order
    for r, a1, a2 in ((0, 2, 4), (3, 6, 1), (5, 4, 2)):
        jobs.append(job(EAP, "HMarshalDeterministicDecoded", [r, a1, a2], map_orders=True))
    return jobs


def c02_jobs(tier):
    q = tier == "quick"
    jobs = []
    cut_dd = [c + "|" + MOD + ".decryptMsg" for c in ALL_CUTS]
    suites = [0, 4, 8] if q else range(9)
    # O2-O4 on arbitrary datagrams.  family 1: first payload spans the datagram; family 0: arbitrary chains
    nA = 28 + 4 + 16 + 32 + 16 if q else 28 + 4 + 16 + 64 + 16
    nB = 28 + 8 if q else 28 + 10
    for s in suites:
        for role in (0, 1):
            for hm in (0, 1):
                for n in range(0, nA + 1):
                    if q and n > 40 and (n + s + role + hm) % 3 != 0:
                        continue
                    jobs.append(job(ROOT, "HUnprotectArbitrary", [s, role, hm, n, 1], cut=cut_dd))
                for n in range(0, nB + 1):
                    jobs.append(job(ROOT, "HUnprotectArbitrary", [s, role, hm, n, 0]))
                for l1 in (4, 13):
                    for body in range(0, 16 + 32 + 16 + 1):
                        if q and (body + s + role + hm + l1) % 4 != 0 and body > 20:
                            continue
                        jobs.append(job(ROOT, "HUnprotectArbitrary", [s, role, hm, 28 + l1 + 4 + body, 2, l1], cut=cut_dd, wall_ms=900000))
    # genuine messages, tampered / truncated / extended / reflected / presented under other keys
    shapes = [[], [40], [33, 41]] if q else [[]] + [[k] for k in PAYLOAD_KINDS] + [[33, 41], [47, 48]]
    for s in (suites if q else range(9)):
        for role in (0, 1):
            for mode in range(6):
                for sh in shapes:
                    if q and mode >= 1 and sh == [33, 41] and s != 4:
                        continue
                    jobs.append(job(ROOT, "HTamperGenuine", [s, role, mode, -1] + sh + [0]))
    return jobs


def c06_jobs(tier):
    q = tier == "quick"
    jobs = []
    for s in range(9):
        for role in (0, 1):
            shapes = [[], [PAYLOAD_KINDS[(2 * s + role) % 15]], [PAYLOAD_KINDS[(s + 7 * role + 3) % 15], PAYLOAD_KINDS[(5 * s + role + 1) % 15]]]
            if not q:
                shapes = [[]] + [[k] for k in PAYLOAD_KINDS] + [[33, 41], [47, 48], [40, 44, 45]]
            for sh in shapes:
                jobs.append(job(ROOT, "HSKLayout", [s, role, 0] + sh + [0]))
                jobs.append(job(ROOT, "HAcceptReference", [s, role, (s + role) % 2, 0] + sh + [0]))
    # a peer may put payloads this library does not implement into the encrypted chain
    for i, s_ in enumerate((3, 6) if q else range(9)):
        for base in ([], [41]):
            jobs.append(job(ROOT, "HSkipInsideProtected", [s_, i % 2, (i + len(base)) % 2, 0] + base + [0]))
    # inner chains of several hundred octets (two payloads with 300 / 1000 data octets each)
    for i, s in enumerate((1, 5, 6) if q else range(9)):
        big = 1300 if i % 2 == 0 or q else 2000
        jobs.append(job(ROOT, "HSKLayout", [s, i % 2, big, 40, 37, 0], wall_ms=600000))
        jobs.append(job(ROOT, "HAcceptReference", [s, (i + 1) % 2, i % 2, big, 43, 39, 0], wall_ms=600000))
    return jobs


def c10_jobs(tier):
    q = tier == "quick"
    jobs = []
    ns = list(range(0, 65)) if q else list(range(0, 130)) + [255, 256, 257, 1023, 1024, 1025, 4095, 4096]
    for ki in range(3):
        for n in ns:
            if q and ki != n % 3 and n > 33:
                continue
            jobs.append(job(ENCR, "HEncryptStructure", [ki, n]))
        for n in (0, 15, 16, 17):
            for k in (1, 2, 3):
                jobs.append(job(ENCR, "HRandFault", [ki, n, k]))
        for l in range(0, 65):
            jobs.append(job(ENCR, "HWrongKey", [ki, l]))
        for kj in range(3):
            jobs.append(job(ENCR, "HKeyIsolation", [ki, kj]))
        for n in range(0, (96 if q else 128) + 1):
            jobs.append(job(ENCR, "HDecryptArbitrary", [ki, n]))
        for n in ((1552, 1568, 4112) if q else (512, 1040, 1552, 1568, 1584, 4096, 4112)):
            jobs.append(job(ENCR, "HDecryptArbitrary", [ki, n], wall_ms=600000))
            jobs.append(job(ENCR, "HEncryptStructure", [ki, n - 17], wall_ms=600000))
    return jobs


def c07_jobs(tier):
    q = tier == "quick"
    jobs = []
    lens = [1, 2, 15, 16, 17, 32, 64] if q else list(range(1, 65)) + [128, 256, 512]
    for e in range(3):
        for i in range(3):
            for p in range(3):
                combos = [(lens[(e + i + p + k) % len(lens)], lens[(2 * e + i + 3 * p + 2 * k + 1) % len(lens)]) for k in range(3)] if q else \
                    [(l, lens[(j * 7 + e + i + p) % len(lens)]) for j, l in enumerate(lens)]
                for ln, ls in combos:
                    jobs.append(job(SEC, "HIKESAKeys", [e, i, p, ln, ls]))
                for role in (0, 1):
                    jobs.append(job(ROOT, "HTwoPartyKeys", [e, i, p, role, 40, 0]))
    jobs.append(job(SEC, "HIKESAKeysRefuse", []))
    for k in range(9 if q else 27):
        e, i, p = (k % 3, (k // 3) % 3, (k + k // 3) % 3) if q else (k % 3, (k // 3) % 3, k // 9)
        jobs.append(job(SEC, "HIKESAKeysRepeated", [e, i, p, lens[k % len(lens)], lens[(k + 3) % len(lens)], 16, 32]))
    # long nonces / secrets (Ni|Nr may be 512 octets): one combination per PRF
    for p in range(3):
        for ln, ls in ((257, 16), (512, 256), (300, 512), (63, 20), (64, 64), (65, 128), (240, 16), (480, 32), (496, 16)):
            jobs.append(job(SEC, "HIKESAKeys", [p, (p + 1) % 3, p, ln, ls]))
    for d in range(2):
        for k in range(9 if q else 27):
            e, i, p = (k % 3, (k // 3) % 3, (k + k // 3) % 3) if q else (k % 3, (k // 3) % 3, k // 9)
            jobs.append(job(SEC, "HNewIKESAKey", [d, e, i, p], bytes_full=True, unwind_assume=UA_RAND))
    return jobs


def c08_jobs(tier):
    q = tier == "quick"
    jobs = []
    nonces = [0, 1, 16, 32] if q else list(range(0, 33)) + [64]
    junks = [0, 5] if q else [0, 1, 8, 63, 64, 65]
    for p in range(3):
        for e in range(3):
            for i in range(4):
                for ln in nonces:
                    for j in junks:
                        if q and (p + e + i + ln + j) % 2 == 1:
                            continue
                        jobs.append(job(SEC, "HChildKeys", [p, e, i, ln, j]))
    for p in range(3):
        # long nonces (Ni|Nr up to 512 octets) and Child SA key objects built from a negotiated proposal
        for ln in (256, 300, 512, 63, 64, 65, 230, 240, 255):
            jobs.append(job(SEC, "HChildKeys", [p, (p + 1) % 3, (p + 2) % 3, ln, 3]))
        for e in range(3):
            for i in range(3):
                jobs.append(job(SEC, "HChildKeys", [p, e, i, 16, 1000 + (3 if (p + e + i) % 2 else 0)]))
        for i in range(4):
            jobs.append(job(SEC, "HChildKeys", [p, (p + i) % 3, i, 16, 2000 + (5 if i % 2 else 0)]))
            jobs.append(job(SEC, "HChildKeys", [p, (p + i + 1) % 3, i, 16, 3000 + (3 if i % 2 else 0)]))
    return jobs


def c16_jobs(tier):
    q = tier == "quick"
    jobs = []
    ks = [1, 16, 17, 32, 64] if q else range(1, 65)
    ids = [0, 1, 15, 16, 64, 255] if q else range(0, 256)
    for a in ks:
        for b in (ks if q else [1, 16, 32, 64, a]):
            for i in (ids if q else [0, 1, 16, 255, (a * 7) % 256]):
                jobs.append(job(EAP, "HPrfPrime", [a, b, i]))
    if not q:
        for i in ids:
            jobs.append(job(EAP, "HPrfPrime", [16, 16, i]))
    for w in range(3):
        for l in (1, 16):
            jobs.append(job(EAP, "HPrfPrimeEmpty", [w, l]))
    # two calls in a row, also with inputs whose concatenations could coincide
    for a in ((16, 16, 24, 16, 24, 16), (16, 16, 8, 16, 16, 8), (32, 32, 0, 16, 16, 40), (16, 24, 16, 16, 16, 32)):
        jobs.append(job(EAP, "HPrfPrimeTwice", list(a)))
    return jobs


def c14_jobs(tier):
    q = tier == "quick"
    t = 0 if q else 1
    jobs = []
    for m in (0, 1, 2, 3, 254):
        jobs.append(job(EAP, "HEapWellFormed", [m, 0, t], map_orders=True))
        jobs.append(job(EAP, "HEapRoundTrip", [m, 0, t]))
    masks = [m for m in range(128) if bin(m).count("1") <= (2 if q else 7)]
    for m in masks:
        jobs.append(job(EAP, "HEapRoundTrip", [50, m, t], wall_ms=600000))
        if bin(m).count("1") <= 3:
            jobs.append(job(EAP, "HEapWellFormed", [50, m, t], map_orders=True, wall_ms=600000))
        else:
            jobs.append(job(EAP, "HEapWellFormed", [50, m, 0], wall_ms=120000))
    sizes = list(range(0, 41)) + [63, 64, 65, 127, 128, 129, 251, 252, 253, 255, 256, 257, 300] if q else range(0, 301)
    for a in range(7):
        for n in (sizes if a != 6 else [0, 20, 32]):
            jobs.append(job(EAP, "HSetterSizes", [a, n]))
    for n in ([65522, 65523, 65524, 65525] if q else range(65518, 65534)):
        jobs.append(job(EAP, "HEapOversize", [n]))
    for r, a1, a2 in ((0, 2, 4), (3, 6, 1), (5, 4, 2), (6, 0, 5), (1, 3, 6)):
        jobs.append(job(EAP, "HMarshalDeterministicDecoded", [r, a1, a2], map_orders=True))
    return jobs


def c15_jobs(tier):
    q = tier == "quick"
    t = 0 if q else 1
    jobs = []
    masks = [m for m in range(128) if bin(m).count("1") <= (2 if q else 7)]
    keys = [0, 1, 16, 32, 33, 64, 65]
    for i, m in enumerate(masks):
        for kl in (keys if not q else [keys[i % 7], 32]):
            jobs.append(job(EAP, "HMacSender", [m, kl, t], wall_ms=120000))
            jobs.append(job(EAP, "HMacReceiver", [m, kl, t], wall_ms=120000))
    for i in range(7):
        for j in range(7):
            if i == j:
                continue
            jobs.append(job(EAP, "HMacReceiverForeignOrder", [i, j, 32, -1]))
            if 6 in (i, j) or 5 in (i, j) or not q:
                jobs.append(job(EAP, "HMacReceiverForeignOrder", [i, j, 32, 0]))
    for m1, m2 in ((1 | 4, 2), (64, 16 | 32), (2, 1 | 64), (0, 0), (127, 4)):
        jobs.append(job(EAP, "HMacReceiverReuse", [m1, m2, 32]))
    return jobs


def c17_jobs(tier):
    q = tier == "quick"
    jobs = []
    junks = [0, 1, 7] if q else [0, 1, 7, 8, 63, 64, 65]
    shapes = [[], [40]] if q else [[], [40], [33, 41], [48]]
    for s in range(9):
        for op in (0, 1, 2):
            for role in (0, 1):
                for j in junks:
                    if q and (s + op + role + j) % 2 == 1:
                        continue
                    for sh in shapes:
                        jobs.append(job(ROOT, "HReuseStep", [s, op, role, j] + sh + [0]))
    for s in ([0, 4, 8] if q else range(9)):
        for role in (0, 1):
            for j in ([5] if q else [1, 5, 64]):
                for n in ([32, 47, 48, 60, 64, 76, 80, 92, 96] if q else range(32, 113)):
                    jobs.append(job(ROOT, "HReuseReject", [s, role, j, n, 40, 0]))
    # key derivation from a used PRF object is C08's inductive step (junk in Prf_d); repeated here at one size
    for p in range(3):
        for j in (3, 64):
            jobs.append(job(SEC, "HChildKeys", [p, 1, p, 16, j]))
        jobs.append(job(SEC, "HChildKeys", [p, 2, (p + 1) % 4, 16, 2003]))
        for e in range(3):
            for i in range(4):
                jobs.append(job(SEC, "HChildKeys", [p, e, i, 8, 7]))
    # concrete long histories (the property's sequences of up to 64 operations)
    for i, s_ in enumerate(range(9) if not q else (0, 4, 8)):
        jobs.append(job(ROOT, "HReuseSequence", [s_, i % 2, 64 if i % 3 == 0 or not q else 34, 0], wall_ms=600000))
        jobs.append(job(ROOT, "HReuseSequence", [s_, (i + 1) % 2, 40, 40, 0], wall_ms=600000))
    return jobs


def c12_jobs(tier):
    q = tier == "quick"
    jobs = []
    A = dict(solver="cvc5")
    nsa, nb, nloop, ncp, ne = (20, 28, 64, 24, 4 + 14) if q else (26, 44, 120, 26, 4 + 18)
    for k in range(33, 48):
        top = nsa if k == 33 else (ncp if k == 47 else (nloop if k in (44, 45) else nb))
        for n in range(0, top + 1):
            jobs.append(job(MSG, "HStableBody", [k, n], **A))
    for n in range(0, ne + 1):
        jobs.append(job(EAP, "HStableEap", [n], wall_ms=1200000, **A))
        jobs.append(job(MSG, "HStableBody", [48, n], wall_ms=1200000, **A))
    for n in range(28, (28 + 8 if q else 28 + 10) + 1):
        jobs.append(job(MSG, "HStableMessage", [n], **A))
    t = 1 if q else 2
    for k in PAYLOAD_KINDS:
        for tt in sa_tiers(t, k):
            jobs.append(job(MSG, "HCanonicalIdentity", [tt, k, 0], wall_ms=1200000))
    for i in range(15):
        jobs.append(job(MSG, "HCanonicalIdentity", [0, PAYLOAD_KINDS[i], PAYLOAD_KINDS[(i + 6) % 15], 0]))
    jobs.append(job(MSG, "HCanonicalIdentity", [0, 0]))
    for n in ((1, 3) if q else (1, 2, 3, 4)):
        jobs.append(job(MSG, "HStableForeignSA", [n], wall_ms=600000))
    for big in ((1600,) if q else (1600, 3000)):
        jobs.append(job(MSG, "HCanonicalIdentity", [big, 34, 40, 43, 0], wall_ms=600000))
        jobs.append(job(MSG, "HStableLiberal", [big, 0, 37, 41, 39, 0], wall_ms=600000))
    for k in PAYLOAD_KINDS:
        for tt in sa_tiers(t, k):
            for perm in ((0, 1, 2) if k == 33 else (0,)):
                if q and k == 33 and perm != (tt % 3 if tt >= 0 else 1):
                    continue
                jobs.append(job(MSG, "HStableLiberal", [tt, perm, k, 0], wall_ms=1200000))
    return jobs


def c11_jobs(tier):
    jobs = []
    for k, n in ((0, 3), (1, 3), (2, 3), (3, 3), (4, 3), (5, 2), (6, 2)):
        for i in range(n):
            for w in (0, 1):
                jobs.append(job(SEC, "HNameRoundTrip", [k, i, w]))
    for k in range(7):
        for f in range(4):
            for w in (0, 1):
                if f == 3 and (w == 0 or k > 1):
                    continue  # long TLV values: the encryption transform through the wire
                jobs.append(job(SEC, "HDecodeSymbolic", [k, f, w]))
    for ike in (0, 1):
        for which in range(4):
            for f in range(3):
                jobs.append(job(SEC, "HProposalRejected", [ike, which, f], bytes_full=True, unwind_assume=UA_RAND))
    for e in range(3):
        for i in range(3):
            for p in range(3):
                jobs.append(job(SEC, "HProposalRoundTrip", [1, e, i, p, (e + i + p) % 2]))
                jobs.append(job(SEC, "HProposalRoundTrip", [0, e, i, p, (e + i + p) % 3]))
    return jobs


_PRIMES = None


def rfc_primes():
    """RFC 2409 / RFC 3526 primes computed from their defining formula with 900-digit pi (mpmath in the tooling venv)."""
    global _PRIMES
    if _PRIMES is None:
        import subprocess
        code = ("from mpmath import mp, floor, pi\nmp.dps=900\n"
                "f=lambda n,c: 2**n - 2**(n-64) - 1 + 2**64*(int(floor(mp.mpf(2)**(n-130)*pi)) + c)\n"
                "print('%X %X' % (f(1024,129093), f(2048,124476)))")
        out = subprocess.run(["/opt/veriftools/pyvenv/bin/python3", "-c", code], capture_output=True, text=True)
        if out.returncode != 0:
            raise RuntimeError("cannot compute the RFC primes: " + out.stderr)
        _PRIMES = out.stdout.split()
    return _PRIMES


def c09_jobs(tier):
    q = tier == "quick"
    jobs = []
    sp = rfc_primes()
    for g in (0, 1):
        jobs.append(job(DH, "HPrimes", [g], sparams=sp))
        lens = {} if (g == 0 or not q) else dict(bytes_lens=[256, 255, 254, 128, 1, 0])
        jobs.append(job(DH, "HPublicValue", [g], wall_ms=900000, **lens))
        jobs.append(job(DH, "HSharedKey", [g], wall_ms=900000, **lens))
        jobs.append(job(DH, "HAgreement", [g], bytes_full=True))
        jobs.append(job(SEC, "HNewIKESAKeyFault", [g]))
    for k in (0, 1, 2, 3):
        jobs.append(job(SEC, "HRandomNumber", [k], unwind_assume=UA_RAND))
    # a single call with up to eleven rejected draws in a row (a bounded retry loop must not fall through)
    jobs.append(job(SEC, "HRandomNumber", [4], unwind_assume=UA_RAND, unwind_assume_n=12, wall_ms=600000))
    return jobs


def c19_jobs(tier):
    q = tier == "quick"
    jobs = [job(MSG, "HNewHeader", [k]) for k in (0, 1, 2)] + [job(MSG, "HBuildResets", [])]
    for w in range(17):
        for k in (0, 1, 2):
            for n in ((0, 1, 5) if q else (0, 1, 2, 5, 8, 33)):
                if q and (w + k + n) % 2 == 1 and w != 11:
                    continue
                jobs.append(job(MSG, "HBuild", [w, k, n]))
    nas = [0, 1, 2, 8, 64, 65534, 65535, 65536, 70000] if q else list(range(0, 9)) + [64, 255, 256, 65534, 65535, 65536, 65537, 70000]
    for n in nas:
        jobs.append(job(MSG, "HBuild3GPP", [0, n % 3, n, 0]))
    qf = [0, 1, 8, 250, 251, 252, 255, 256, 300] if q else list(range(0, 9)) + list(range(248, 258)) + [300]
    for n in qf:
        for fl in range(4):
            jobs.append(job(MSG, "HBuild3GPP", [1, (n + fl) % 3, n, fl]))
    for w in (2, 3):
        for a in range(4):
            jobs.append(job(MSG, "HBuild3GPP", [w, a % 3, a, 0]))
    for k in (0, 1, 2):
        jobs.append(job(MSG, "HBuild3GPP", [4, k, 0, 0]))
    return jobs


def c18_jobs(tier):
    """The write monitor runs inside a selection of the other properties' jobs (every operation the
    property lists), with monitor_shared on: a Store / MapUpdate / in-place append / stub-declared write to
    an object reachable from package-level state after init, or into an input buffer, is a violation."""
    sel = []
    def take(js, every):
        for i, j in enumerate(js):
            if i % every == 0:
                sel.append(j)
    take(c01_jobs("quick"), 6)
    take(c03_jobs("quick"), 4)
    take([j for j in c04_jobs("quick") if not j.get("cut") and j["params"][-1] % 4 == 0 and j["entry"] != "HDecodeDecryptArbitrary"], 3)
    take([j for j in c04_jobs("quick") if j["entry"] == "HDecodeDecryptArbitrary" and j["params"][4] in (76, 80, 92, 96)], 5)
    take(c07_jobs("quick"), 6)
    take(c08_jobs("quick"), 10)
    take([j for j in c09_jobs("quick") if j["entry"] in ("HAgreement", "HRandomNumber", "HNewIKESAKeyFault", "HPrimes")], 1)
    take([dict(j, bytes_lens=[128, 127, 256, 255]) for j in c09_jobs("quick") if j["entry"] in ("HPublicValue", "HSharedKey")], 1)
    take(c10_jobs("quick"), 25)
    take(c11_jobs("quick"), 2)
    take(c14_jobs("quick"), 12)
    take(c15_jobs("quick"), 8)
    take(c16_jobs("quick"), 12)
    take(c17_jobs("quick"), 12)
    take(c19_jobs("quick"), 5)
    take(c20_jobs("quick"), 8)
    if tier == "thorough":
        sel.extend(c01_jobs("quick") + c03_jobs("quick") + c07_jobs("quick") + c08_jobs("quick") + c11_jobs("quick") + c14_jobs("quick") +
                   c15_jobs("quick") + c16_jobs("quick") + c17_jobs("quick") + c19_jobs("quick") + c20_jobs("quick") + c10_jobs("quick"))
    sel.append(job(MSG, "HNames", []))
    for m, n in ((0, 16), (1 | 8, 3), (64, 20)):
        sel.append(job(EAP, "HNames", [m, n]))
    out = []
    for j in sel:
        j = dict(j)
        j["monitor_shared"] = True
        out.append(j)
    return out


PROPS = {
    "C18": dict(jobs=c18_jobs, level="other", claim="Interleavings are not explored (a hand-written symbolic executor for Go has no scheduler model). What is decided, by the same engine on every feasible path of a selection of all other properties' jobs (encode, decode, protect, unprotect, key derivation, Diffie-Hellman, transform mapping, EAP processing, random number generation, builders), is the frame condition from which race freedom of independent operations follows: no write (Store, MapUpdate, in-place append, stub-declared write) targets an object reachable from package-level state after init, and decoders do not write into their input buffer (also asserted as 'input unchanged' in the C04 harnesses). Operations whose write sets contain only their own objects commute in every schedule.",
                explanation="Frame condition (no write to shared package-level state, no write to input buffers) checked symbolically on every path of the selected jobs; schedules, GOMAXPROCS and the Go memory model are outside the claim. A violation is confirmed natively by running the same harness on four goroutines under the race detector.",
                bounds=lambda t: ("every %s job of the quick tables of C01, C03, C04, C07-C11, C14-C17, C19, C20 with the write monitor on" % ("k-th (k between 1 and 25, see lib/props.py)" if t == "quick" else "single")) + ('; String() of every type code and the refusing GetAttr / SetAttr paths' if t == "quick" else '; String() of every type code and the refusing GetAttr / SetAttr paths'),
                outside="schedules and interleavings themselves; crypto/rand.Reader and the read-only registries are trusted to be safe for concurrent use (documented by the standard library / never written after init, which is what the monitor checks)",
                technique="frame-condition checking by bounded symbolic execution of the real Go code (write monitor over go/ssa -> SMT paths); counterexamples confirmed with the race detector",
                note="Level 'other': race freedom is inferred from a decided frame condition, not from exploring schedules."),
    "C19": dict(jobs=c19_jobs, claim="For each of the 17 container builders (and their sub-element builders), NewHeader / NewMessage, the accessors and the Reset helpers, with symbolic arguments and 0..2 earlier payloads: exactly one payload is appended, its fields equal the arguments field by field, the earlier payloads are the same objects and nothing reachable from them is written (frame condition); header: version 2.0, exactly the requested flag bits, accessors read bits 0x20 / 0x08. 3GPP helpers against the TS 24.502 layouts written out octet by octet (EAP-5G Start / NAS: vendor 10415, type 3, message id, spare, 16-bit NAS length, PDU; 5G_QOS_INFO: length, PDU session id, QFI count and list, DCSI 0x02 / DSCPI 0x01 flags, optional DSCP; NAS/UP IPv4 address; NAS TCP port), with sizes at and around every limit: oversize arguments give an error and append nothing.",
                bounds=lambda t: "data lengths %s; NAS PDU lengths {0,1,2,8,64,65534,65535,65536,70000}%s; QFI counts {0,1,8,250,251,252,255,256,300}%s x all 4 flag combinations; 4 dotted-quad addresses; all non-zero ports" % (("{0,1,5}", "", "") if t == "quick" else ("{0,1,2,5,8,33}", " and 0..8, 255, 256, 65537", " and 248..257")),
                outside="content of NAS PDUs / QFI lists longer than 64 / 16 octets is zero (only the length handling is exercised there); the 5G_QOS_INFO length octet is read as counting the whole value including itself (what the code emits and free5GC peers parse; TS 24.502 cannot be consulted offline)",
                assumptions=["net.ParseIP is evaluated concretely by the engine (real standard-library function on the constant strings)"]),

    "C09": dict(jobs=c09_jobs, claim="Ground queries: the parsed modulus of both groups equals the RFC prime computed (not copied) from its defining formula with 900-digit pi, generator 2, modulus length 128 / 256. With big.Int.Exp uninterpreted (modexp < m for m > 0; modexp(modexp(g,a),b) = modexp(modexp(g,b),a)): for every exponent x < 2^2048 and peer value y < 2^2056, GetPublicValue / GetSharedKey return exactly the modulus-length big-endian image of 2^x / y^x mod p - the executor forks over every possible minimal length of the result, so leading zero octets are covered for every value; both parties' shared secrets agree; GetPublicValue / GetSharedKey leave their big.Int operands unchanged; a generated exponent consists of the last 2048 bits the random source delivered during that call (however many reads, rejected draws included), lies in [2^128, 2^2048), a second call returns a later draw, and a failing source at either call (and inside NewIKESAKey) gives an error and no key.",
                bounds=lambda t: "group 2: all 129 minimal lengths of the result; group 14: %s; agreement under the assumption of full-length public and shared values; exponent rejection loop followed through three rejected draws (eleven in one job), then cut by the unwinding assumption: termination is probabilistic" % ("minimal lengths {256,255,254,128,1,0}" if t == "quick" else "all 257 minimal lengths"),
                outside="that math/big.Exp computes modular exponentiation and that two draws of the system source differ (trusted contracts of the standard library)",
                assumptions=["math/big.Int.Exp is an uninterpreted function with modexp(b,e,m) < m and commutation in the exponents; SetString/SetBytes/Bytes/Cmp are modelled on 2176-bit vectors", "crypto/rand.Int returns a fresh symbolic value below its bound, or fails at the injected call", "a direct Read on crypto/rand.Reader fills the buffer, fails at the injected call, or - only the first such call on a path - delivers 1 or n-1 octets without error (io.Reader's contract); crypto/rand.Read and io.ReadFull always fill", "big.Int.BitLen is evaluated on constants only"]),

    "C11": dict(jobs=c11_jobs, claim="Exhaustive over the advertised names (3 encr, 3 integ, 3 prf, 2 dh, 2 esn; IKE and Child variants), directly and through a real SA Marshal/Unmarshal: ToTransform gives the registry identifier and attribute of an independent IANA/RFC table, DecodeTransform gives back the same descriptor, lengths match the RFC table. The universal part is one solver query per decode function instead of 65536 identifiers: for a transform with symbolic identifier and symbolic attribute (absent / TV with symbolic type and value / TLV), directly and after the wire, result != nil implies exactly the advertised (identifier, key-length attribute type 14 in TV form, value in {128,192,256}, matching key size); a single-choice proposal with one foreign transform makes NewIKESAKey / NewChildSAKeyByProposal fail.",
                bounds=lambda t: "all advertised names; symbolic identifier x attribute forms {absent, TV, TLV of 1..3 octets; for the encryption transform through the wire also TLV of 16, 24, 32, 128, 192, 256 octets}; foreign transform in each of the 4 positions of an IKE / Child proposal",
                outside="other TLV value lengths; proposals with several transforms per type (the library reads the first)",
                assumptions=["NewIKESAKey with a foreign integrity transform runs the Diffie-Hellman step before it fails: there the public and shared values are assumed to have no leading zero octet and the exponent rejection loop is unwound twice (unwinding assumption); C09 decides those cases"] + CRYPTO_ASSUME),

    "C12": dict(jobs=c12_jobs, claim="For every byte string up to the bound (arbitrary content, per payload body decoder, per EAP packet, and whole datagrams including chains with unsupported payloads): decode ok and encode ok imply that the re-encoding decodes to an equal value and encodes to itself (fixed point after one step); canonical datagrams of the independent encoder (zero reserved bits, no unsupported payloads, exact lengths, transforms grouped by ascending type) re-encode byte-identically. Loops are unrolled (the contents of what was decoded matter), and re-encoding concretises symbolic field lengths by solver enumeration, which is what limits the bound.",
                bounds=lambda t: "payload bodies: SA <= %d octets, TS <= %d, CP <= %d, others <= %d; EAP packets <= %d; whole datagrams <= %d octets; canonical and liberal datagrams from the generator shapes (every kind alone, 15 pairs, three payloads with 600 data octets each); foreign SA payloads with up to %d transforms of arbitrary types" % ((20, 64, 24, 28, 18, 36, 3) if t == "quick" else (26, 120, 26, 44, 22, 38, 4)),
                outside="longer byte strings; a panic inside Encode of a decoded value would be reported as a panic violation (none found)"),

    "C17": dict(jobs=c17_jobs, claim="Inductive step instead of exploring histories: the SA key object starts in an arbitrary reachable state (every keyed-hash object with arbitrary octets already written - the HMAC buffer is the objects' only state and any content is reachable through a previous rejected message; ciphers satisfying the representation invariant) and one operation - protect as either role, unprotect a genuine message, reject an arbitrary datagram with invalid ICV, derive Child SA keys - must give the result a fresh object gives (accepted by / accepting a fresh peer, payloads equal, forged still rejected and the cipher not reached, keys equal to the specification), and must re-establish the invariant, which covers operation sequences of any length; two-operation sequences are run explicitly as a cross-check.",
                bounds=lambda t: ("9 suites, both roles, junk lengths %s, messages of 0..1 payloads (thorough: also SA+Notify, EAP); rejected datagrams of %s octets" % (("{0,1,7}", "12 lengths in 0..96") if t == "quick" else ("{0,1,7,8,63,64,65}", "every length 0..112"))) + ('; Child derivation for all 36 (PRF, encryption, integrity) suites on a used PRF object; concrete histories of 34 / 40 / 64 operations (3 suites)' if t == "quick" else '; Child derivation for all 36 (PRF, encryption, integrity) suites on a used PRF object; concrete histories of 40 / 64 operations (9 suites)'),
                outside="states of the cipher objects that violate the invariant (Iv / Padding set by the caller: these exported fields are a test hook of the library, not reachable through its operations)",
                assumptions=CRYPTO_ASSUME),

    "C14": dict(jobs=c14_jobs, claim="For every EAP shape in the bound and all field values: the encoded packet is accepted by the strict reference parser (length = size, Success/Failure without data, 24-bit vendor id / 32-bit vendor type, AKA' attributes in whole words with word-count length, zero padding, exact bit length), the parser recovers the packet and the octets equal the reference encoder's; Unmarshal(Marshal(e)) == e; the setter refuses every wrong size 0..300 for the fixed-size attributes and a value read back through GetAttr - freshly set (after the caller's buffer is overwritten) and after a wire round trip - is exactly the value set, for every accepted size; two encodings of one message are identical under all explored map iteration orders; an oversize packet gives an error.",
                bounds=lambda t: "methods Success/Failure, Identity, Notification, Nak, Expanded; AKA' attribute subsets of size %s; setter sizes %s for each of the 7 attributes; expanded data lengths around 65523" % (("<= 2", "0..40 and {63..65,127..129,251..257,300}") if t == "quick" else ("<= 7 (all 128)", "0..300")),
                outside="KDF_INPUT values longer than 300 octets; map orders beyond those listed in the evidence for maps of more than 3 entries"),
    "C15": dict(jobs=c15_jobs, claim="With HMAC-SHA-256 uninterpreted, CalcEapAkaPrimeAtMAC(key) equals the first 16 octets of H(key, w0) where w0 is the reference encoder's wire image of the packet with AT_MAC zeroed - for every prior AT_MAC content and every key length in the bound; a receiver that decodes the transmitted packet applies H to exactly the same octets (which, H being uninterpreted, holds iff its re-serialisation is octet-identical to what the sender authenticated); the same for reference-encoded packets with the attributes in any order and AT_MAC at any position.",
                bounds=lambda t: "attribute subsets of size %s, key lengths {0,1,16,32,33,64,65}; foreign order: every ordered pair of distinct attributes with AT_MAC at every position" % ("<= 2" if t == "quick" else "<= 7"),
                outside="'a different value if any octet or key differs' is the injectivity of the hashed argument (decided) plus collision resistance of HMAC (idealised, not decided); foreign packets with more than two attributes besides AT_MAC",
                assumptions=CRYPTO_ASSUME),

    "C07": dict(jobs=c07_jobs, claim="For all 27 (encryption key size, integrity, PRF) combinations and each (nonce, secret) length pair in the bound, for all octet values and SPIs: the seven SK_* values equal the consecutive slices of an independently written prf+ over an independently written SKEYSEED, with lengths from an independent RFC table; every ready-made PRF / integrity / cipher object is keyed with exactly those keys (probed through its public interface); two parties deriving from the same inputs hold identical keys and what one protects the other unprotects, in both directions.",
                bounds=lambda t: ("nonce / shared-secret lengths from %s; probe message 5 octets" % ("{1,2,15,16,17,32,64} (3 pairs per combination)" if t == "quick" else "1..64 and {128,256,512}")) + ('; Ni|Nr of 63, 64, 65, 240, 257, 300, 480, 496, 512 octets (one suite per PRF); a second derivation on the same object (9 suites); arguments passed as views of larger guarded buffers' if t == "quick" else '; Ni|Nr of 63, 64, 65, 240, 257, 300, 480, 496, 512 octets (one suite per PRF); a second derivation on the same object (9 suites); arguments passed as views of larger guarded buffers'),
                outside="other lengths up to 512 (these buffers are only appended and hashed); the Diffie-Hellman step itself is C09",
                assumptions=CRYPTO_ASSUME + ["HNewIKESAKey: Diffie-Hellman values are taken from the library's own group functions (decided by C09), public and shared values assumed without leading zero octet, exponent rejection loop unwound twice"]),
    "C08": dict(jobs=c08_jobs, claim="For all PRFs x ESP key sizes x {none, MD5-96, SHA1-96, SHA2-256-128} and nonce lengths in the bound, for all SK_d and nonce octets: the four Child SA keys equal consecutive slices of the independent prf+(SK_d, Ni|Nr) in the prescribed order. Histories are decided by an inductive step: the IKE SA's Prf_d starts with arbitrary octets already written (any state an earlier use can leave, since the only state is the HMAC buffer) and the keys must still equal the specification, and a second derivation on the same object gives them again.",
                bounds=lambda t: ("nonce lengths %s and {256,300,512}, junk already in the PRF object %s octets; key objects from a struct literal and from NewChildSAKeyByProposal" % (("{0,1,16,32}", "{0,5}") if t == "quick" else ("0..32 and 64", "{0,1,8,63,64,65}"))) + ('; further nonce lengths {63,64,65,230,240,255}; a third derivation with the largest suite and the same nonce; IKE SA objects with only Prf_d, and with all descriptors set; keys extended by the caller afterwards' if t == "quick" else '; further nonce lengths {63,64,65,230,240,255}; a third derivation with the largest suite and the same nonce; IKE SA objects with only Prf_d, and with all descriptors set; keys extended by the caller afterwards'),
                outside="other nonce lengths", assumptions=CRYPTO_ASSUME),
    "C16": dict(jobs=c16_jobs, claim="For each (|IK'|, |CK'|, |identity|) in the bound and all octet values (arbitrary, also non-ASCII identity octets): the five derived keys equal octets 0-15, 16-47, 48-79, 80-143, 144-207 of an independently written PRF'(IK'|CK', \"EAP-AKA'\"|identity) over the same uninterpreted HMAC-SHA-256; empty IK' or CK' is refused.",
                bounds=lambda t: ("key lengths %s, identity lengths %s" % (("{1,16,17,32,64}", "{0,1,15,16,64,255}") if t == "quick" else ("1..64", "0..255"))) + ('; two calls in a row (4 length tuples, among them ones whose concatenated inputs can coincide)' if t == "quick" else '; two calls in a row (4 length tuples, among them ones whose concatenated inputs can coincide)'),
                outside="other length combinations", assumptions=CRYPTO_ASSUME),

    "C06": dict(jobs=c06_jobs, claim="(a) RFC 7296 3.14 stated as a predicate over the real EncodeEncrypt output, using the same uninterpreted E/D/H: header fields, next payload 46, both length fields final, SK next = first inner payload, IV, positive whole number of blocks, textbook-CBC decryption under the sender-direction key gives chain || pad || pad length where the strict reference parser turns the chain into exactly the original payloads, ICV = truncated HMAC under the sender-direction integrity key over everything before it. (b) messages built by the independent implementation with every legal pad length (all p <= 255 compatible with the block size) and arbitrary pad octets and IV are accepted and decoded to the original payloads.",
                bounds=lambda t: ("9 suites x 2 directions; message shapes: empty, one and two payloads at generator tier 0" + ("" if t == "quick" else ", every payload kind alone")) + ('; inner chains with 300 data octets per payload (3 suites); unsupported payloads inside the encrypted chain of a reference message (2 suites)' if t == "quick" else '; inner chains with 300 / 1000 data octets per payload (9 suites); unsupported payloads inside the encrypted chain of a reference message (9 suites)'),
                outside="larger messages", assumptions=CRYPTO_ASSUME,
                trusted=["reference codec and reference protect in the harness (RFC layouts, DESIGN.md Appendix A)"]),
    "C10": dict(jobs=c10_jobs, claim="For every key size and every plaintext length in the bound, for all key and plaintext octets and every outcome of the random source: size law, textbook CBC structure (plaintext || pad || pad length) under the reference block primitive, IV equal to a 16-octet string delivered by the random source during that very call (also for a second call on the same object), inverse, no state kept in the cipher object; an injected failure of the random source at either read gives an error and no ciphertext; every key length 0..64 other than the negotiated one is refused; Decrypt on every ciphertext length 0..96 with arbitrary content (all 256 recovered pad-length octets) returns a value of a consistent length or an error, never panics.",
                bounds=lambda t: ("plaintext lengths %s; ciphertext lengths 0..%d; key lengths 0..64; fault at read 1, 2, 3" % (("0..64", 96) if t == "quick" else ("0..129 and {255..257, 1023..1025, 4095, 4096}", 128))) + ('; cipher texts of 1552, 1568, 4112 octets and plaintexts 17 shorter; pairs of objects whose keys share their first 16 octets (9 pairs)' if t == "quick" else '; cipher texts of 512 .. 4112 octets (7 sizes) and plaintexts 17 shorter; pairs of objects whose keys share their first 16 octets (9 pairs)'),
                outside="other plaintext lengths up to 4096 (the code is length-generic: one more CBC block per 16 octets)", assumptions=CRYPTO_ASSUME),

    "C02": dict(jobs=c02_jobs, claim="Structural obligations decided for every datagram of every length up to the bound, all keys, both roles: (O2) success through the SK branch implies that the last ICV octets equal the truncated HMAC under the sender-direction key over everything before them (hash, length and key direction from an independent table); (O3) at every cipher call that same formula is already implied by the path condition, i.e. ciphertext never reaches the cipher unauthenticated; (O4) otherwise no key is applied and the result equals plain Decode. On genuine messages: every single-octet edit at every position, every proper prefix, extensions, reflection and foreign keys are refused with an error under the ideal-MAC reading (a modified or misdirected message never carries a valid ICV), except an alteration of the first-payload type. Never crashing (O1) is shared with C04.",
                bounds=lambda t: "arbitrary datagrams: single-SK-payload family up to %d octets, arbitrary chains up to %d octets; genuine messages of 0..2 payloads at the fixed minimal shape (thorough: every payload kind); %s suites, both roles, header nil/parsed" % ((96, 36, 3) if t == "quick" else (128, 38, 9)),
                outside="unforgeability / collision resistance of HMAC itself (idealised, stated); longer datagrams; multi-octet edits other than truncation/extension are covered only through the arbitrary-datagram obligations O2-O4",
                assumptions=CRYPTO_ASSUME + ["ideal MAC: datagrams considered carry an invalid ICV (vr.Assume(!valid)); acceptance of a modified message with a valid ICV is the <= 2^-96 collision event the property tolerates"],
                trusted=["native confirmation of O2/O3 counterexamples uses a spying hash object in the SA's public interface fields to learn the checksum the code expects, writes it into the datagram and re-presents it with the real HMAC"]),

    "C05": dict(jobs=c05_jobs, claim="Both directions against an independently written RFC 7296 / RFC 3748 / RFC 4187 codec executed by the same engine: the strict reference parser accepts every library encoding and recovers exactly the encoded fields; the library decodes every datagram of the liberal reference encoder (symbolic reserved bits, critical flags, three transform orders) to the fields it was built from - for all field values of each shape. The reference's own round-trip lemma is discharged too.",
                bounds=lambda t: ("generator shapes of tier %s per payload kind, 15 (quick) / 225 (thorough) ordered pairs at minimal shape, transform orders {grouped, reversed, rotated}" % ("1" if t == "quick" else "2")) + ('; three payloads with 600 data octets each (strict parse and liberal decode)' if t == "quick" else '; three payloads with 600 / 2000 data octets each (strict parse and liberal decode)'),
                outside="larger shapes; interleavings of more than 3 transforms beyond reverse/rotate",
                trusted=["the reference codec in harness/message/zz_verif_ref.go and harness/eap/zz_verif_ref.go (written from the RFC layouts; its own lemma Parse(Encode(m)) == m is checked)"]),
    "C13": dict(jobs=c13_jobs, claim="For each base message shape and every one or two insertion positions, a solver-decided statement over a symbolic unsupported type code (all of 1..32, 49..255 at once), symbolic flags and body: non-critical => decodes exactly as the base message; critical => error; critical/reserved bits on implemented payloads are ignored.",
                bounds=lambda t: ("base messages of 0..2 (quick) / 0..3 (thorough) payloads, one or two insertions at every position, body lengths {0,1,8%s}" % ("" if t == "quick" else ",1024")) + ('; 1024-octet insertions into a message carrying 1000 data octets; insertions in front of and inside the encrypted chain of a protected message (3 suites)' if t == "quick" else '; 1024-octet insertions into a message carrying 1000 / 3000 data octets; insertions in front of and inside the encrypted chain of a protected message (9 suites)'),
                outside="body lengths other than those listed (the body is only skipped by length), more than two insertions"),
    "C20": dict(jobs=c20_jobs, claim="Decided on the engine's heap: after Decode / DecodeDecrypt the receive buffer (including spare capacity) is overwritten with fresh symbolic octets and every payload field must still equal its snapshot for all values (an aliased field would read the fresh symbols); Encode leaves all payload fields unchanged, does not reference the returned buffer, and two encodings are identical under the explored map iteration orders; EncodeEncrypt changes only the payload list and header bookkeeping.",
                bounds=lambda t: ("every payload kind alone and 15 pairs at generator tier 0/1; arbitrary accepted datagrams up to %d octets; protect/unprotect for %s suites" % ((36, 3) if t == "quick" else (38, 9))) + ("; values of 300 octets (CP, CERT, Notify, Vendor ID); every payload kind through one of the three secondary decoder entry points; proposals whose transform containers are views of shared arrays; EAP packets of every type-data kind with an arbitrary code octet; decoded-then-extended EAP-AKA' packets under all map orders" if t == "quick" else "; values of 300 octets (CP, CERT, Notify, Vendor ID); every payload kind through all three secondary decoder entry points; proposals whose transform containers are views of shared arrays; EAP packets of every type-data kind with an arbitrary code octet; decoded-then-extended EAP-AKA' packets under all map orders"),
                outside="larger messages; map iteration orders other than those listed in the evidence for maps of more than 3 entries", assumptions=CRYPTO_ASSUME),

    "C01": dict(jobs=c01_jobs, claim="For every suite, sender role and header mode, and every message shape within the bounds, the solver shows that unprotecting a protected message returns the original header fields and payloads for all field values, all key octets and all outcomes of the random IV and padding; the no-key path equals plain encode/decode. Bounded model checking is the right level: the code is straight-line byte arithmetic around opaque primitives, and the quantifier (all keys, all randomness) cannot be sampled.", bounds=lambda t: ("9 suites x 2 sender roles x header {nil, parsed}; messages of 0, 1 and 2 payloads at minimal shape (tier 0 generator)" + ("" if t == "quick" else "; every payload kind alone and in 15 ordered pairs")) + ('; same-kind pairs (5 kinds) and multi-element payloads (generator tier 1: TS, CP, EAP, Delete); one Nonce payload of 32767 / 32768 / 40000 / 65535 octets without keys and 40000 with keys, 65536 and 70000 refused' if t == "quick" else '; same-kind pairs (15 kinds) and multi-element payloads (generator tier 1 incl. SA); one Nonce payload of 32767 / 32768 / 40000 / 65535 octets without keys and 40000 with keys, 65536 and 70000 refused'),
                outside="longer data, more than two payloads, larger nested shapes", assumptions=CRYPTO_ASSUME),
    "C03": dict(jobs=c03_jobs, claim="For every message shape within the bounds the solver shows Decode(Encode(m)) == m field by field for all field values at once (all 2^16 attribute types, all SPI contents, all ports and addresses), which pinned vectors cannot cover.", bounds=lambda t: ("every payload kind alone at the %s shape set of the generator, the empty message, %s ordered pairs at minimal shape, EAP methods, EAP-AKA' attribute subsets of size %s" % (("quick", "15", "<= 2") if t == "quick" else ("thorough", "225", "<= 7"))) + ('; per payload kind with a single data field: one payload of about 32 k or 40 k octets, the largest that fits the 16-bit length and one beyond (refused)' if t == "quick" else '; per payload kind with a single data field: payloads of 32763, 32764, 40000 octets, the two largest that fit the 16-bit length, one beyond and 70000 (refused)'),
                outside="opaque data longer than 24 octets, more than 2 payloads, more than 2 proposals / 3 transforms / 3 selectors (thorough: also the 255-selector TS payloads)"),
    "C04": dict(jobs=c04_jobs, claim="Every decoding entry point (ParseHeader, IKEMessage.Decode, the payload chain walker with a symbolic first type, each of the 16 payload body decoders, EAP.Unmarshal and the five EAP method bodies, DecodeDecrypt with and without keys and with the header nil or parsed from the same bytes, IKECrypto.Decrypt) is executed symbolically on an arbitrary buffer of every length up to the bound, with symbolic spare capacity behind it; every index, slice, make, nil and type-assertion obligation, the no-over-read obligation (no re-slice of the input beyond its length), 'input unchanged afterwards' and, per input-consuming loop, either an unwinding assertion (unrolled) or a strictly decreasing variant (one iteration from an arbitrary loop-head state: cut mode) is discharged by the solver for all contents.",
                bounds=lambda t: ("cut mode (chain walker, SA proposals / transforms, TS selectors, CP attributes, EAP-AKA' attributes): every length 0..%d; loops unrolled: bodies 0..%d (SA 0..%d, TS 0..%d, CP 0..%d, EAP / EAP-AKA' 0..%d), header 0..40, whole message 0..%d, chain 0..%d; cipher 0..%d and 1568 (thorough also 1040, 4112) for 3 key sizes; unprotection with keys: Encrypted payload spanning the datagram 0..%d octets (%s suites, both roles, inner chain in cut mode; the same behind a skipped payload of 4 or 13 octets), arbitrary chains 0..36; without keys 0..36 unrolled and 28..%d cut"
                                  % ((64, 32, 20, 100, 40, 12, 36, 8, 64, 96, 3, 92) if t == "quick" else (160, 64, 26, 200, 64, 16, 38, 10, 96, 128, 9, 188))),
                outside="longer buffers (the property's 65535): in cut mode the claim for long chains rests on the induction argument of DESIGN.md 2.3 (first-arrival states range over all well-formed loop-head states), un-cut runs at small sizes cross-check it",
                assumptions=CRYPTO_ASSUME),
}
