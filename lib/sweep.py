#!/usr/bin/env python3
"""sweep.py [name-prefix...]   (development helper)
For every seeded change under /verif/seeded: apply it to a scratch worktree, run the relevant checks
(quick tier) against it, record which raise a confirmed VIOLATION in meta.json, print a table."""
import json, os, subprocess, sys, glob, re
V = os.path.dirname(os.path.dirname(os.path.abspath(__file__)))
EXTRA = {  # further checks worth running for a seed besides its own property
    "C01-1": ["C17", "C06"], "C05-2": ["C04"], "C06-2": ["C01", "C17"], "C04-2": ["C10"], "C10-2": ["C04"], "C18-2": ["C04", "C10"],
    "C14-2": ["C03"], "C08-2": ["C11"], "C11-2": ["C08"], "C17-2": ["C08"], "C08-1": ["C17"], "C13-6": ["C02"], "C20-6": ["C14"],
    "C07-16": ["C09"], "C15-15": ["C14"], "C06-16": ["C20"], "C06-15": ["C13"], "C04-15": ["C13"],
    "C18-7": ["C07"], "C17-8": ["C08"], "C02-8": ["C04"], "C14-7": ["C20"], "C20-7": ["C14"],
}
known = json.load(open(os.path.join(V, "known_findings.json")))
bysubj = {}
for f in known["fixed"]:
    bysubj[f["subject"].replace("fix: ", "")] = [f["property"]] + f.get("also", [])
pref = sys.argv[1:]
rows = []
for d in sorted(glob.glob(os.path.join(V, "seeded", "*"))):
    name = os.path.basename(d)
    if pref and not any(name.startswith(p) for p in pref):
        continue
    meta = json.load(open(os.path.join(d, "meta.json")))
    if name.startswith("fixrev"):
        subj = meta.get("subject", "").replace("fix: ", "")
        checks = None
        for k, v in bysubj.items():
            if k[:40] == subj[:40]:
                checks = v
        checks = checks or ["C04"]
    else:
        checks = [meta.get("property", name.split("-")[0])] + EXTRA.get(name, [])
    r = subprocess.run([os.path.join(V, "lib", "mutate.py"), d] + checks, capture_output=True, text=True)
    res = {}
    try:
        res = json.load(open(os.path.join(d, "last_result.json")))
        os.remove(os.path.join(d, "last_result.json"))
    except Exception:
        pass
    det = {}
    for line in r.stdout.split("\n"):
        m = re.match(r"\s+(C\d+) rc=(\d+)\s*(.*)", line)
        if m:
            det[m.group(1)] = m.group(3)[:300]
    meta["checks_run"] = res
    meta["detected_by"] = sorted(k for k, v in res.items() if v == 1)
    meta["detail"] = {k: det.get(k, "") for k in meta["detected_by"]}
    meta["what_was_run"] = "lib/mutate.py: patch applied to a scratch git worktree of /repo; go build ./... and go test ./... pass; ./check <id> --tier quick run against the worktree (VERIF_REPO); worktree removed"
    json.dump(meta, open(os.path.join(d, "meta.json"), "w"), indent=1)
    ok = "builds+tests pass" in r.stdout
    rows.append((name, ok, res))
    print("%-10s build+tests=%s  %s" % (name, "ok" if ok else "FAIL", "  ".join("%s:%s" % (k, {0: "missed", 1: "CAUGHT", 3: "undecided"}.get(v, v)) for k, v in res.items())), flush=True)
