#!/usr/bin/env python3
"""mutate.py <seeded dir> <prop> [<prop>...]   (development helper)
Applies seeded/<dir>/patch.diff to a scratch worktree of /repo, checks that it builds and that the
repository's own tests still pass, runs the named checks (quick) against that worktree through
VERIF_REPO, prints which of them raise a VIOLATION, and removes the worktree."""
import subprocess, sys, os, json, shutil, tempfile
V = os.path.dirname(os.path.dirname(os.path.abspath(__file__)))
d = sys.argv[1]
props = sys.argv[2:]
name = os.path.basename(d.rstrip("/"))
wt = tempfile.mkdtemp(prefix="mut-%s-" % name, dir="/tmp")
os.rmdir(wt)
env = dict(os.environ, GOFLAGS="-mod=mod", GOPROXY="off", GOSUMDB="off", GOTOOLCHAIN="local")
def sh(cmd, **kw):
    return subprocess.run(cmd, shell=True, capture_output=True, text=True, env=env, **kw)
r = sh("git -C /repo worktree add --detach %s HEAD" % wt)
if r.returncode != 0:
    print(r.stderr); sys.exit(2)
try:
    r = sh("git -C %s apply %s" % (wt, os.path.join(os.path.abspath(d), "patch.diff")))
    if r.returncode != 0:
        print("patch does not apply:", r.stderr); sys.exit(2)
    r = sh("go build ./... && go test -vet=off -count=1 ./... 2>&1 | grep -v 'no test files'", cwd=wt)
    tests_ok = r.returncode == 0 and "FAIL" not in r.stdout
    print("%s: builds+tests %s" % (name, "pass" if tests_ok else "FAIL\n" + r.stdout[-1500:] + r.stderr[-500:]))
    res = {}
    for p in props:
        e2 = dict(env, VERIF_REPO=wt, VERIF_NO_EVIDENCE="1")
        r = subprocess.run([os.path.join(V, "check"), p, "--tier", "quick"], capture_output=True, text=True, env=e2, cwd=V)
        lines = [l for l in r.stdout.split("\n") if l.startswith(("VIOLATION", "UN", "KNOWN", "VACUOUS"))]
        det = [l for l in r.stderr.split("\n") if l.startswith("  ")]
        res[p] = r.returncode
        print("  %s rc=%d %s" % (p, r.returncode, "; ".join(det[:3])[:400] if r.returncode == 1 else "; ".join(lines[:2])[:300]))
    json.dump(res, open(os.path.join(d, "last_result.json"), "w"))
finally:
    sh("git -C /repo worktree remove --force %s" % wt)
    shutil.rmtree(wt, ignore_errors=True)
