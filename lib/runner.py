"""Orchestrator for the solver-based checks: job scheduling over engine workers, native replay,
known findings, evidence.  Used by /verif/check."""
import json, os, subprocess, sys, threading, time, queue, shutil, hashlib, re, tempfile

VERIF = os.path.dirname(os.path.dirname(os.path.abspath(__file__)))
REPO = os.environ.get("VERIF_REPO", "/repo")
ENGINE_DIR = os.path.join(VERIF, "engine")
ENGINE = os.path.join(ENGINE_DIR, "gosmt")
HARNESS = os.path.join(VERIF, "harness")
MOD = "github.com/free5gc/ike"
GOENV = dict(os.environ, GOFLAGS="-mod=mod", GOPROXY="off", GOSUMDB="off", GOTOOLCHAIN="local", CGO_ENABLED="0")
PROGRESS = os.environ.get("VERIF_PROGRESS", "")
NWORKERS = int(os.environ.get("VERIF_WORKERS", "16"))


def log(*a):
    print(*a, file=sys.stderr, flush=True)


def build_engine():
    srcs = [os.path.join(ENGINE_DIR, f) for f in os.listdir(ENGINE_DIR) if f.endswith(".go") or f in ("go.mod", "go.sum")]
    if os.path.exists(ENGINE) and all(os.path.getmtime(ENGINE) >= os.path.getmtime(s) for s in srcs):
        return
    r = subprocess.run(["go", "build", "-o", "gosmt", "."], cwd=ENGINE_DIR, env=GOENV, capture_output=True, text=True)
    if r.returncode != 0:
        log("engine build failed:\n" + r.stdout + r.stderr)
        sys.exit(3)


class Worker(threading.Thread):
    def __init__(self, jobs, results, lock):
        super().__init__(daemon=True)
        self.jobs, self.results, self.lock = jobs, results, lock
        self.proc = None

    def start_proc(self):
        self.proc = subprocess.Popen([ENGINE, "-jobs", "-", "-repo", REPO, "-harness", HARNESS], stdin=subprocess.PIPE,
                                     stdout=subprocess.PIPE, stderr=subprocess.DEVNULL, text=True, env=GOENV, bufsize=1,
                                     start_new_session=True)

    def kill_proc(self):
        """Kills the engine together with its solver processes (own process group)."""
        try:
            os.killpg(self.proc.pid, 9)
        except Exception:
            try:
                self.proc.kill()
            except Exception:
                pass

    def run(self):
        while True:
            if DEADLINE[0] and time.time() > DEADLINE[0]:
                # time budget of the whole check used up: remaining jobs are not started
                try:
                    while True:
                        SKIPPED.append(self.jobs.get_nowait())
                except queue.Empty:
                    pass
                break
            try:
                job = self.jobs.get_nowait()
            except queue.Empty:
                break
            if self.proc is None or self.proc.poll() is not None:
                self.start_proc()
            # watchdog: the engine checks its wall bound between instructions; a solver that does not come
            # back from one query (its soft time limit is not always honoured) is ended from outside
            limit = job.get("wall_ms", 240000) / 1000.0 + 180
            killed = []
            wd = threading.Timer(limit, lambda: (killed.append(1), self.kill_proc()))
            wd.daemon = True
            wd.start()
            try:
                self.proc.stdin.write(json.dumps(job) + "\n")
                self.proc.stdin.flush()
                line = self.proc.stdout.readline()
                if not line:
                    raise IOError("engine exited")
                res = json.loads(line)
            except Exception as e:  # engine crash: report as unsupported, restart
                if killed:
                    res = {"job": dict(job), "status": "undecided", "inconclusive": ["no answer within the job's wall bound plus 180 s (a solver query did not return); engine process ended"],
                           "paths": 0, "steps": 0, "violations": [], "queries": 0, "solver_ms": 0, "wall_ms": int(limit * 1000), "funcs": []}
                else:
                    res = {"job": dict(job), "status": "unsupported", "unsupported": "engine process failed: %r" % (e,), "paths": 0, "steps": 0,
                           "violations": [], "queries": 0, "solver_ms": 0, "wall_ms": 0, "funcs": []}
                self.kill_proc()
                self.proc = None
            finally:
                wd.cancel()
            with self.lock:
                self.results.append(res)
                if PROGRESS:
                    with open(PROGRESS, "a") as f:
                        f.write("%7d ms %-10s %s%s %s paths=%s q=%s left=%d\n" % (res.get("wall_ms", 0), res.get("status"), job["entry"], job["params"],
                                "cut" if job.get("cut") else "", res.get("paths"), res.get("queries"), self.jobs.qsize()))
        if self.proc is not None:
            try:
                self.proc.stdin.close()
                self.proc.wait(timeout=10)
            except Exception:
                self.proc.kill()


DEADLINE = [0]
SKIPPED = []


def run_jobs(jobs):
    """Runs the jobs on up to NWORKERS engine processes; returns results in job order."""
    build_engine()
    q = queue.Queue()
    smap = dict(x.split(":") for x in os.environ.get("VERIF_SOLVER_MAP", "").split(",") if ":" in x)
    for i, j in enumerate(jobs):
        j = dict(j)
        j["_i"] = i
        if smap:
            j["solver"] = smap.get(j.get("solver") or "z3", j.get("solver") or "z3")
        q.put(j)
    results, lock = [], threading.Lock()
    n = min(NWORKERS, max(1, len(jobs)))
    ws = [Worker(q, results, lock) for _ in range(n)]
    for w in ws:
        w.start()
    for w in ws:
        w.join()
    # engine echoes the job without our private key; match by position through params/entry
    return results


# ---------------------------------------------------------------------------------------------
# native replay

def overlay_json(extra):
    """Overlay mapping every harness file (and extra generated files) into /repo."""
    rep = {}
    for root, _, files in os.walk(HARNESS):
        for f in files:
            if f.endswith(".go"):
                p = os.path.join(root, f)
                rel = os.path.relpath(p, HARNESS)
                rep[os.path.join(REPO, rel)] = p
    rep.update(extra)
    return {"Replace": rep}


def pkg_dir(pkg):
    rel = pkg[len(MOD):].lstrip("/")
    return rel


TEST_TMPL = '''package %(pkgname)s

import (
	"fmt"
	"testing"

	vr "github.com/free5gc/ike/internal/verifrt"
)

func TestVerifReplay(t *testing.T) {
	defer func() {
		if r := recover(); r != nil {
			if _, ok := r.(vr.AssumeFailed); ok {
				fmt.Println("VERIF-ASSUME-FAILED")
				return
			}
			fmt.Printf("VERIF-PANIC %%v\\n", r)
			panic(r)
		}
	}()
	%(entry)s()
	f, hits := vr.Done()
	fmt.Printf("VERIF-REPLAY-DONE failures=%%v hits=%%v\\n", f, hits)
}
'''


RACE_TMPL = '''package %(pkgname)s

import (
	"fmt"
	"sync"
	"testing"

	vr "github.com/free5gc/ike/internal/verifrt"
)

// The same harness on several goroutines, each with its own copy of the replay vector and its own
// objects: under the race detector any write to state shared through the library shows as a data race.
func TestVerifReplayRace(t *testing.T) {
	before := vr.DumpGlobals()
	defer func() {
		// besides a data race, a package-level variable that the operations have changed is direct evidence
		// of state kept outside the objects passed in (this also sees synchronised stores: sync.Map, atomics)
		if vr.DumpGlobals() != before {
			fmt.Println("VERIF-GLOBAL-CHANGED")
		}
	}()
	var wg sync.WaitGroup
	for i := 0; i < 4; i++ {
		wg.Add(1)
		go func() {
			defer wg.Done()
			defer func() {
				if r := recover(); r != nil {
					fmt.Printf("VERIF-PANIC %%v\\n", r)
				}
			}()
			for k := 0; k < 20; k++ {
				vr.Reset()
				%(entry)s()
			}
		}()
	}
	wg.Wait()
	fmt.Println("VERIF-RACE-REPLAY-DONE")
}
'''


def pkg_name(pkg):
    d = os.path.join(REPO, pkg_dir(pkg))
    for f in sorted(os.listdir(d)):
        if f.endswith(".go") and not f.endswith("_test.go"):
            for line in open(os.path.join(d, f)):
                m = re.match(r"package\s+(\w+)", line)
                if m:
                    return m.group(1)
    raise RuntimeError("no package name for " + pkg)


GLOBAL_TMPL = '''package %(pkgname)s

import vr "github.com/free5gc/ike/internal/verifrt"

func init() { vr.RegisterGlobal("%(name)s", &%(name)s) }
'''


def write_replay(outdir, name, job, model, detail=""):
    """Writes vector + test + overlay for one model; returns the replay directory path."""
    d = os.path.join(outdir, name)
    os.makedirs(d, exist_ok=True)
    # a write-monitor finding that names a package-level variable: the concurrent replay also watches it
    m = re.search(r"global (github\.com/free5gc/ike(?:/[\w/]+)?)\.(\w+)", detail or "")
    if m:
        gp, gn = m.group(1), m.group(2)
        try:
            open(os.path.join(d, "zz_verif_global.go"), "w").write(GLOBAL_TMPL % {"pkgname": pkg_name(gp), "name": gn})
            json.dump({"pkg": gp}, open(os.path.join(d, "global.json"), "w"))
        except Exception:
            pass
    vec = {"params": job["params"], "sparams": job.get("sparams") or [], "draws": model or []}
    json.dump(vec, open(os.path.join(d, "vector.json"), "w"), indent=1)
    pkg = job["pkg"]
    test = TEST_TMPL % {"pkgname": pkg_name(pkg), "entry": job["entry"]}
    tpath = os.path.join(d, "zz_verif_replay_test.go")
    open(tpath, "w").write(test)
    rpath = os.path.join(d, "zz_verif_race_test.go")
    open(rpath, "w").write(RACE_TMPL % {"pkgname": pkg_name(pkg), "entry": job["entry"]})
    ov = overlay_json({os.path.join(REPO, pkg_dir(pkg), "zz_verif_replay_test.go"): tpath})
    json.dump(ov, open(os.path.join(d, "overlay.json"), "w"), indent=1)
    meta = {"pkg": pkg, "entry": job["entry"], "params": job["params"]}
    json.dump(meta, open(os.path.join(d, "meta.json"), "w"), indent=1)
    return d


def run_replay(d, timeout=120, vector=None, race=False):
    """Runs the native replay in directory d; returns (output, timed_out).  race: the concurrent replay
    under the race detector (confirmation of C18 write-monitor findings)."""
    meta = json.load(open(os.path.join(d, "meta.json")))
    # regenerate the overlay (paths of harness files may have changed since the replay was written)
    tpath = os.path.join(d, "zz_verif_replay_test.go")
    extra = {os.path.join(REPO, pkg_dir(meta["pkg"]), "zz_verif_replay_test.go"): tpath}
    rpath = os.path.join(d, "zz_verif_race_test.go")
    if os.path.exists(rpath):
        extra[os.path.join(REPO, pkg_dir(meta["pkg"]), "zz_verif_race_test.go")] = rpath
    gpath = os.path.join(d, "zz_verif_global.go")
    if race and os.path.exists(gpath):
        gp = json.load(open(os.path.join(d, "global.json")))["pkg"]
        extra[os.path.join(REPO, pkg_dir(gp), "zz_verif_global.go")] = gpath
    ov = overlay_json(extra)
    ovp = os.path.join(d, "overlay.json")
    json.dump(ov, open(ovp, "w"), indent=1)
    env = dict(GOENV, VERIF_REPLAY=vector or os.path.join(d, "vector.json"))
    rel = "./" + pkg_dir(meta["pkg"]) if pkg_dir(meta["pkg"]) else "."
    cmd = ["go", "test", "-overlay", ovp, "-vet=off", "-count=1", "-run", "^TestVerifReplay$", "-timeout", "%ds" % timeout, "-v", rel]
    if race:
        env["CGO_ENABLED"] = "1"
        cmd = ["go", "test", "-race", "-overlay", ovp, "-vet=off", "-count=1", "-run", "^TestVerifReplayRace$", "-timeout", "%ds" % timeout, "-v", rel]
    try:
        r = subprocess.run(cmd, cwd=REPO, env=env, capture_output=True, text=True, timeout=timeout + 120)
        out = r.stdout + r.stderr
        return out, ("test timed out" in out)
    except subprocess.TimeoutExpired as e:
        return (e.stdout or "") + (e.stderr or "") if isinstance(e.stdout, str) else "", True


def confirm(label, site, out, timed_out):
    """Does the native run show the violation the engine predicted?"""
    if "VERIF-ASSUME-FAILED" in out:
        return False, "vector does not satisfy the harness assumptions natively"
    if label.startswith("panic:"):
        if "VERIF-PANIC" in out or "panic:" in out:
            m = re.search(r"VERIF-PANIC (.*)", out)
            return True, (m.group(1) if m else "panic")
        return False, "no panic natively"
    if label.startswith("c18.shared-write"):
        if "DATA RACE" in out:
            return True, "data race reported by the race detector in the concurrent native replay"
        if "VERIF-GLOBAL-CHANGED" in out:
            return True, "the package-level variable was changed by the operation in the native replay"
        if timed_out:
            return True, "the concurrent native replay does not terminate: operations on separate objects block each other through the shared state"
        return False, "no data race and no change of the package-level variable in the concurrent native replay"
    if label in ("unwind", "c04.variant", "deadlock"):
        if timed_out:
            return True, "native run does not terminate within the time limit"
        return False, "native run terminates"
    if "VERIF-ASSERT-FAIL " + label in out:
        return True, "assertion failed natively"
    return False, "assertion did not fail natively"


def source_line(site):
    try:
        f, ln = site.rsplit(":", 1)
        lines = open(os.path.join(REPO, f)).read().split("\n")
        return lines[int(ln) - 1].strip()
    except Exception:
        return ""


def finding_signature(v):
    """Stable identification of a violation: obligation label, faulting function, statement text."""
    return {"label": v["label"], "func": v.get("func", ""), "stmt": source_line(v.get("site", ""))}


def load_known():
    p = os.environ.get("VERIF_KNOWN") or os.path.join(VERIF, "known_findings.json")
    if not os.path.exists(p):
        return {"known": [], "fixed": []}
    return json.load(open(p))


def match_known(known, prop, sig):
    for k in known.get("known", []):
        if k["property"] == prop and k["label"] == sig["label"] and k["func"] == sig["func"] and k["stmt"] == sig["stmt"]:
            return k
    return None
