#!/usr/bin/env python3
"""Regenerates /verif/MANIFEST.json from lib/props.py (claimed checks) and properties.jsonl."""
import json, os, sys
sys.path.insert(0, os.path.dirname(os.path.abspath(__file__)))
import props
V = os.path.dirname(os.path.dirname(os.path.abspath(__file__)))
ids = [json.loads(l)["id"] for l in open(os.path.join(V, "properties.jsonl"))]
checks, na = [], []
for i in ids:
    s = props.PROPS.get(i)
    if s is None or s.get("not_applicable"):
        na.append({"property_id": i, "reason": (s or {}).get("not_applicable", "check not built yet")})
        continue
    checks.append({
        "property_id": i,
        "quick_cmd": "./check %s --tier quick" % i,
        "thorough_cmd": "./check %s --tier thorough" % i,
        "evidence_file": "/verif/evidence/%s.json" % i,
        "replay_cmd_template": "./check %s --replay {path}" % i,
        "engine": "gosmt",
        "level_claimed": {"category": s.get("level", "model_checking"), "text": s["claim"], "design_ref": s.get("design_ref", "DESIGN.md section 4, " + i)},
        "level_note": s.get("note", "Bounded: all symbolic values within the stated bounds, nothing outside them. Trusted: the go/ssa -> SMT executor and its stubs (crypto as uninterpreted functions with inverse axioms), the SMT solvers' unsat answers; every sat answer is replayed natively against the real build before it is reported."),
        "technique": s.get("technique", "bounded symbolic execution of the real Go code from go/ssa into SMT-LIB2 (bit-vectors + arrays + UF), decided by z3 / cvc5; counterexamples replayed natively"),
    })
m = {
    "version": 1,
    "setup_cmd": "./setup.sh",
    "hooks": {"guard": "verif", "enable": "no source hooks: harnesses under /verif/harness are injected in-package through go/packages Overlay (engine) and go test -overlay (replay)",
              "baseline_off_cmd": "cd /repo && go test -mod=mod -vet=off -count=1 -timeout 25m ./...", "source_commits": [], "add_only": True},
    "engines": [{"name": "gosmt", "path": "/verif/engine", "serves_properties": [c["property_id"] for c in checks],
                 "kind_free_text": "path-based symbolic executor for Go over golang.org/x/tools/go/ssa emitting SMT-LIB2 to persistent z3 / cvc5 processes"}],
    "checks": checks,
    "not_applicable": na,
    "notes": "Every check: ./check <id> --tier quick|thorough; exit 0 held / 1 VIOLATION / 3 undecided. Fixed defects and known findings: /verif/known_findings.json.",
}
json.dump(m, open(os.path.join(V, "MANIFEST.json"), "w"), indent=1)
print("claimed:", [c["property_id"] for c in checks], "not applicable:", [n["property_id"] for n in na])
